"""Per-property plans: which models are checked, which drivers run, which
trace specification judges them, which fields the negative control corrupts."""
import json
import os
import re
import random as _r

from vlib import Infra, log, NCPU

PLANS = {}


def plan(pid, level):
    def deco(fn):
        PLANS[pid] = {"fn": fn, "level": level}
        return fn
    return deco


def write_lines(path, lines):
    with open(path, "w", encoding="utf-8") as f:
        for x in lines:
            f.write(x + "\n")


def edges_to_tsv(edges):
    """TLC tuple text  1582, 10, 4, 0, "NextDay", -31  ->  '1582 10 4 0 NextDay -31'"""
    out = []
    for e in edges:
        parts = [p.strip().strip('"') for p in e.split(",")]
        out.append(" ".join(parts))
    return out


# --------------------------------------------------------------------- C04
def bump(path):
    def f(e):
        cur = e
        for p in path[:-1]:
            if p not in cur if isinstance(cur, dict) else p >= len(cur):
                return False
            cur = cur[p]
        last = path[-1]
        try:
            cur[last] = cur[last] + 1
        except Exception:
            return False
        return True
    return f


@plan("C04", "model_checking")
def c04(r):
    thorough = r.tier == "thorough"
    r.rule = ("TLC model-checks MC_Civil (cursor over boundary days x stepping actions, depth %d) and every edge of "
              "that state graph is executed on real Solar objects; per-day frames (Julian Day at 6+1 seconds of day, "
              "round trip, real-valued JD at 7 millisecond offsets, weekday, Subtract/SubtractMinute/IsBefore/IsAfter "
              "against 3 partners) for %s; seeded random chains of 50 mixed NextDay/NextHour/NextMonth/NextYear/JD "
              "round-trip steps with the cursor carried by the trace specification. A case is distinct and non-trivial "
              "if it is a distinct (date, second-of-day, operation, argument) tuple." %
              (3 if thorough else 2, "every civil day 0001-01-01..9998-12-31" if thorough else "all days of 40 seeded + 20 boundary years"))
    r.assumptions += ["real-valued Julian Days are sampled at millisecond offsets {0,1,250,499,501,750,999} of two seconds per day, not enumerated",
                      "TLC 1.8, CommunityModules Json reader, Go toolchain; the projection code in lz (exercised by the negative controls)"]
    r.build()
    r.mc("MC_Civil", "MC_Civil_d3" if thorough else "MC_Civil", nocov=True)
    edges = r.export_edges("MC_Civil", "MBT_Civil" if not thorough else "MBT_Civil")
    tsv = os.path.join(r.dir, "edges.tsv")
    write_lines(tsv, edges_to_tsv(edges))
    r.cov["replayed_edges"] = len(edges)
    ch_e = r.drive("c04edges", args={"edges": tsv}, maxlines=40000)
    r.validate("Trace_Civil", ch_e)
    ch_d = r.drive("c04days", args={"years": 40, "full": 8 if thorough else 1}, maxlines=15000 if not thorough else 60000)
    r.validate("Trace_Civil", ch_d)
    ch_c = r.drive("c04chains", args={"chains": 200000 if thorough else 3000, "steps": 50}, maxlines=50000)
    r.validate("Trace_Civil", ch_c)
    r.sample_from([ch_e[0], ch_d[0], ch_c[0]])
    # distinct cases: per day frame count its observations; per step one
    def key(e):
        ev = e.get("ev")
        if ev == "C04Day":
            return ("d", e["y"], e["m"], e["d"])
        if ev == "C04Edge":
            return ("e", tuple(e["from"]), e["op"], e["n"])
        if ev == "C04Step":
            return ("s", tuple(e["res"]), e["op"], e["n"])
        return None
    r.count_distinct(ch_e + ch_d[:4] + ch_c[:4], key)
    r.negctl("Trace_Civil", ch_d[0], {"C04Day": [
        (lambda e: e.get("p") == 0 and bump(["wk"])(e), "C04.weekday"),
        (lambda e: e.get("p") == 0 and bump(["jd", 0, 1])(e), "C04.jd.value"),
        (lambda e: e.get("p") == 0 and bump(["rt", 1, 4])(e), "C04.jd.roundtrip"),
        (lambda e: e.get("p") == 0 and "fj" in e and bump(["fj", 8, 9])(e), "C04.fromjd"),
        (lambda e: e.get("p") == 0 and bump(["pa", 0, 8])(e), "C04.subtract"),
        (lambda e: e.get("p") == 0 and e["pa"][0][10] == 1 and bump(["pa", 0, 9])(e), "C04.subtractMinute"),
    ]})
    r.negctl("Trace_Civil", ch_c[0], {"C04Step": [
        (lambda e: e["op"] == "NextDay" and bump(["res", 2])(e), "C04.chain.NextDay"),
        (lambda e: e["op"] == "NextMonth" and bump(["res", 1])(e), "C04.chain.NextMonth"),
        (lambda e: e["op"] == "NextHour" and bump(["res", 3])(e), "C04.chain.NextHour"),
    ]})
    r.negctl("Trace_Civil", ch_e[0], {"C04Edge": [
        (lambda e: e["op"] == "NextYear" and bump(["res", 0])(e), "C04.edge.NextYear"),
    ]})


# --------------------------------------------------------------------- C07
@plan("C07", "model_checking")
def c07(r):
    thorough = r.tier == "thorough"
    r.rule = ("TLC model-checks MC_Ctor (civil constructor over an argument box month -1..14 x day -1..33 x 4x4x4 time values, "
              "6 years) and MC_Civil (no reachable cursor is invalid); the same box is driven through the real NewSolar for %s, "
              "the lunar / Taoist / Buddhist constructors for every (month -12..13, day 0..31) of those lunar years against the image "
              "of the civil days (observed by converting every civil day around the year), and seeded random programs of "
              "stepping/conversion calls across Solar, Lunar, Tao, Foto objects with every intermediate object projected. "
              "Distinct non-trivial case = distinct argument tuple or distinct (state, call) step." %
              ("every year 1..9998" if thorough else "60 seeded + 27 boundary years"))
    r.assumptions += ["the lunar image is observed through Solar.GetLunar (its correctness is C01/C06)",
                      "chains bound the validity of lunar-side objects only by field ranges; exact validity against month tables is decided in C01/C06"]
    r.build()
    r.mc("MC_Ctor", "MC_Ctor")
    r.mc("MC_Civil", "MC_Civil")
    ch_c = r.drive("c07civil", args={"years": 60}, maxlines=40000)
    r.validate("Trace_Civil", ch_c)
    ch_l = r.drive("c07lunar", args={"years": 60}, maxlines=150)
    r.validate("Trace_Civil", ch_l)
    ch_ch = r.drive("c07chains", args={"chains": 60000 if thorough else 1600, "steps": 30}, maxlines=40000)
    r.validate("Trace_Civil", ch_ch)
    r.sample_from([ch_c[0], ch_l[0], ch_ch[0]])
    def key(e):
        ev = e.get("ev")
        if ev == "C07Civil":
            return ("c", e["y"], e["m"])
        if ev == "C07Time":
            return ("t", e["y"], e["m"], e["d"])
        if ev == "C07Lunar":
            return ("l", e["y"])
        if ev == "C07Step":
            return ("s", tuple(e["res"]), e["op"], e["n"])
        return None
    r.count_distinct(ch_c + ch_l + ch_ch[:6], key)
    def flip(path):
        def f(e):
            cur = e
            for p in path[:-1]:
                cur = cur[p]
            cur[path[-1]] = 1 - cur[path[-1]]
            return True
        return f
    r.negctl("Trace_Civil", ch_c[:3], {
        "C07Civil": [(lambda e: 1 <= e["m"] <= 12 and flip(["o", 30])(e), "C07.civil."), (lambda e: flip(["o", 0])(e), "C07.civil.accepted")],
        "C07Time": [(flip(["t", 0, 3]), "C07.civil.time-outcome")]})
    r.negctl("Trace_Civil", ch_l[:8], {"C07Lunar": [
        (flip(["lunar", 13, 1]), "C07.lunar.rejected"), (flip(["tao", 0, 0]), "C07.tao.accepted"),
        (flip(["foto", 14, 31]), "C07.foto."), (bump(["got", 0, 10]), "C07.lunar.civil-day")]})
    r.negctl("Trace_Civil", ch_ch[0], {"C07Step": [
        (lambda e: e["op"] == "LunarNext" and bump(["res", 2])(e), "C07.chain.LunarNext"),
        (lambda e: e["op"] == "LunarCtor" and bump(["lun", 2])(e) and bump(["lun", 2])(e) and False or (e["op"] == "LunarCtor" and e["lun"].__setitem__(2, 31) is None), "C07.chain.lunar-shape")]})


# --------------------------------------------------------------------- C15
@plan("C15", "model_checking")
def c15(r):
    thorough = r.tier == "thorough"
    r.rule = ("TLC model-checks MC_Weeks (week cursor over every day of 12 seed months incl. 1582-09..11 x 7 week starts x "
              "whole-week and month-separated stepping n in -6..6; partition and index laws stated by counting) and every "
              "position of that model is replayed on real SolarWeek objects (Next(n,false/true) for 15-21 values of n, and back); "
              "per (month, week start) frames for %s: GetWeeks, GetWeeksOfMonth, SolarMonth.GetDays, every listed week's "
              "fields/index/indexInYear/first day/days/days in month/first day in month, and every day of the month as a week anchor; "
              "seasons, half-years, years. Distinct non-trivial case = distinct (month, start) frame or (anchor, start) navigation frame." %
              ("every month of every year 1..9998" if thorough else "60 seeded + 15 boundary years"))
    r.build()
    r.mc("MC_Weeks", "MC_Weeks")
    pos = r.export_edges("MC_Weeks", "MBT_Weeks")
    tsv = os.path.join(r.dir, "anchors.tsv")
    write_lines(tsv, edges_to_tsv(pos))
    r.cov["replayed_edges"] = len(pos) * 36
    ch_a = r.drive("c15nav", args={"anchors": tsv}, maxlines=600, label="c15nav_mbt")
    r.validate("Trace_Civil", ch_a)
    ch_m = r.drive("c15months", args={"years": 60}, maxlines=1500)
    r.validate("Trace_Civil", ch_m)
    ch_n = r.drive("c15nav", args={"years": 400 if thorough else 40, "days": 12}, maxlines=600)
    r.validate("Trace_Civil", ch_n)
    r.sample_from([ch_m[0], ch_n[0]])
    def key(e):
        ev = e.get("ev")
        if ev == "C15Month":
            return ("m", e["y"], e["m"], e["s"])
        if ev == "C15Nav":
            return ("n", tuple(e["at"]), e["s"])
        if ev == "C15Units":
            return ("u", e["y"])
        return None
    r.count_distinct(ch_a + ch_m + ch_n, key)
    def drop_week(e):
        if len(e["weeks"]) < 2:
            return False
        e["weeks"].pop()
        return True
    r.negctl("Trace_Civil", ch_m[0], {"C15Month": [
        (bump(["wom", 1]), "C15.weeksOfMonth"), (drop_week, "C15.month.weeks.count"),
        (bump(["per", 3, 2]), "C15.week.index"), (bump(["per", 3, 3]), "C15.week.indexInYear"),
        (bump(["per", 10, 6]), "C15.week.firstDay"),
        (lambda e: "idx" in e["weeks"][0] and bump(["weeks", 0, "days", 2, 2])(e), "C15.week.days"),
        (lambda e: "idx" in e["weeks"][0] and len(e["weeks"][0]["dim"]) > 0 and bump(["weeks", 0, "dim", 0, 2])(e), "C15.week.daysInMonth"),
        (lambda e: "days" in e and bump(["days", 5, 2])(e), "C15.month.days")],
        "C15Units": [(bump(["per", 4, "si"]), "C15.season"), (bump(["ymonths", 3, 1]), "C15.year.months")]})
    r.negctl("Trace_Civil", ch_n[0], {"C15Nav": [
        (bump(["wf", 3, 4]), "C15.week.next"), (bump(["ws", 2, "r", "idx"]), "C15.week.nextSeparate"),
        (bump(["ws", 9, "b", "first", 2]), "C15.week.nextSeparate.back"),
        (bump(["un", 5, 2]), "C15.month.next"), (bump(["un", 5, 7]), "C15.season.next"), (bump(["un", 5, 17]), "C15.year.next")]})


# --------------------------------------------------------------------- C19
@plan("C19", "model_checking")
def c19(r):
    thorough = r.tier == "thorough"
    r.rule = ("TLC model-checks MC_Forms (cursor over a grid of civil date-times: parse(format(x)) = x in every state, "
              "lexicographic order = chronological order on every transition between grid points; cursor over lunar dates incl. "
              "5-digit Taoist years: ParseLunar(RenderLunar(x)) = x, distinct dates print differently). Frames per civil year "
              "(%s): every day's ToYmd / ToYmdHms / String as code points, the lunar, Taoist and Buddhist renderings as rune "
              "sequences next to the numbers; TLC checks observed = canonical form, parse-back, order along the year and "
              "distinctness within the year and the last two months of the year before. Distinct non-trivial case = distinct civil day." %
              ("every year 1..9999" if thorough else "80 seeded + 21 boundary years"))
    r.build()
    r.mc("MC_Forms", "MC_Forms_t" if thorough else "MC_Forms", nocov=True)
    ch = r.drive("c19years", args={"years": 80}, maxlines=40)
    r.validate("Trace_Civil", ch)
    r.sample_from(ch[:1])
    r.cov["samples"] = [s[:400] + "...(truncated)" for s in r.cov["samples"]]
    days = 0
    for c in ch:
        for line in open(c, encoding="utf-8"):
            e = json.loads(line)
            days += len(e["rows"])
            r.nontrivial.add(("y", e["y"]))
    r.cov["distinct_nontrivial"] = days
    r.cov["days_rendered"] = days
    def setv(path, v):
        def f(e):
            cur = e
            for q in path[:-1]:
                cur = cur[q]
            cur[path[-1]] = v
            return True
        return f
    def dup_row(e):
        if len(e["rows"]) < 40:
            return False
        for k in ("ls", "l"):
            e["rows"][30][k] = e["rows"][29][k]
        return True
    r.negctl("Trace_Civil", ch[:4], {"C19Year": [
        (bump(["rows", 3, "ymd", 9]), "C19.civil.ymd"), (bump(["rows", 4, "hms", 18]), "C19.civil.ymdhms"),
        (setv(["rows", 5, "ls", 0], "零"), "C19.lunar.render"), (bump(["rows", 6, "t", 2]), "C19.tao.render"),
        (bump(["rows", 7, "f", 0]), "C19.foto.render"), (dup_row, "C19.lunar.distinct")]}, per_kind=1)


# --------------------------------------------------------------------- C20
@plan("C20", "model_checking")
def c20(r):
    thorough = r.tier == "thorough"
    r.rule = ("TLC model-checks MC_Zodiac (day-by-day walk through 34 whole years covering all 14 year types, 1582 and Julian "
              "century years: the sign advances by one exactly on the 12 conventional first days, is a function of month and day; "
              "every k-th / last weekday rule and fixed-date rule selects exactly one day per year). Frames per civil year (%s): "
              "every day's GetXingZuo, GetFestivals, GetOtherFestivals; the library's festival tables are dumped and compared "
              "with the hand-written rule sets of Vocab.tla. Distinct non-trivial case = distinct civil day." %
              ("every year 1..9998" if thorough else "100 seeded + 17 boundary years + 2000..2027"))
    r.build()
    r.mc("MC_Zodiac", "MC_Zodiac")
    ch = r.drive("c20years", args={"years": 100}, maxlines=60)
    r.validate("Trace_Civil", ch)
    r.sample_from(ch[:1])
    r.cov["samples"] = [s[:400] + "...(truncated)" for s in r.cov["samples"]]
    days = 0
    for c in ch:
        for line in open(c, encoding="utf-8"):
            e = json.loads(line)
            if e["ev"] == "C20Year":
                days += len(e["rows"])
    r.cov["distinct_nontrivial"] = days
    r.cov["days_observed"] = days
    def setz(e):
        e["rows"][20]["z"] = "水瓶" if e["rows"][20]["z"] != "水瓶" else "摩羯"
        e["rows"][20]["z2"] = e["rows"][20]["z"]
        return True
    def addf(e):
        e["rows"][40]["f"] = e["rows"][40]["f"] + ["母亲节"]
        return True
    def dropf(e):
        for row in e["rows"]:
            if row["f"]:
                row["f"] = row["f"][1:]
                return True
        return False
    def dropo(e):
        for row in e["rows"]:
            if row["o"]:
                row["o"] = row["o"][:-1]
                return True
        return False
    r.negctl("Trace_Civil", ch[1:5], {"C20Year": [(setz, "C20.zodiac"), (addf, "C20.festivals"), (dropf, "C20.festivals"), (dropo, "C20.otherFestivals")]}, per_kind=2)


# ------------------------------------------------------------ lunar family
def lunar_model(r, want_op):
    """dump the window tables from the current tree, model-check MC_Lunar on them,
    export its edges and replay those with the wanted action on real objects"""
    tabs = r.drive("tables", shards=1, maxlines=0, label="tables")
    env = {"TABLES": tabs[0]}
    rc_info, out = r.mc("MC_Lunar", "MC_Lunar", expect_ok=False, env=env)
    if not rc_info["ok"]:
        # the tables come from the code: a violated invariant is a property violation of the current tree
        m = re.search(r"Invariant (\w+) is violated", out)
        name = m.group(1) if m else "unknown"
        st = out[out.find("Error:"):][:1500]
        r.rejects.append({"name": "%s.model.%s" % (r.pid, name), "line": 0, "key": re.sub(r"\s+", " ", st)[:400], "chunk": tabs[0]})
        return []
    edges = r.export_edges("MC_Lunar", "MBT_Lunar", env=env)
    lines = [x for x in edges_to_tsv(edges) if x.startswith(want_op)]
    tsv = os.path.join(r.dir, "ledges.tsv")
    write_lines(tsv, lines)
    r.cov["replayed_edges"] = len(lines)
    ch = r.drive("lunaredges", args={"edges": tsv}, maxlines=40000)
    r.validate("Trace_Lunar", ch)
    return ch


@plan("C06", "model_checking")
def c06(r):
    thorough = r.tier == "thorough"
    r.rule = ("Month tables of windows of years are dumped from the current tree; TLC model-checks MC_Lunar on them (cursor over "
              "the global month chain: well-formedness, neighbour agreement, contiguity, civil->lunar lookup = chain position) and "
              "every MonthNext(n), n in -14..14, edge of its state graph is executed on real LunarMonth objects. One frame per lunar "
              "year (%s): the year's table, both neighbours' tables, GetLeapMonth/GetDayCount/GetMonthsInYear/GetMonth/"
              "NewLunarMonthFromYm for every signed month, LunarMonth.Next(n) from every month for n in {0,+-1,+-2,+-12,+-13,+-14,+-25,+-40} "
              "with the way back and the same move made one month at a time, New Year's Eve + 1. "
              "Distinct non-trivial case = distinct lunar year frame or distinct (month, n) edge." %
              ("every lunar year 1..9997" if thorough else "300 seeded + 50 boundary years"))
    r.assumptions += ["years 8..23 and 236..240 are exempt in every clause, as the statement says",
                      "the model's tables are the code's own tables (their astronomical truth is C02)"]
    r.build()
    ch_e = lunar_model(r, "MonthNext")
    ch = r.drive("c06years", args={"years": 300}, maxlines=120)
    r.validate("Trace_Lunar", ch)
    # the structural clauses (well-formedness, neighbour agreement, leap month / day count) for EVERY lunar year, both tiers
    chp = r.drive("c06pairs", maxlines=2000)
    r.validate("Trace_Lunar", chp)
    r.cov["years_structurally_checked"] = 9997
    r.sample_from(ch[:1] + ch_e[:1])
    r.cov["samples"] = [s[:500] for s in r.cov["samples"]]
    r.count_distinct(ch + ch_e, lambda e: ("y", e["y"]) if e.get("ev") == "C06Year" else ("e", tuple(e["from"]), e["n"]))
    def ok(e):
        return e["p"] == 0 and not (5 <= e["y"] <= 26 or 233 <= e["y"] <= 243)
    def swap_len(e):
        if not ok(e): return False
        e["t"][3][2] = 31
        return True
    def shift(e):
        if not ok(e): return False
        e["t"][5][3] += 1
        return True
    def leap(e):
        if not ok(e): return False
        e["leap"] = 7 if e["leap"] != 7 else 6
        return True
    def navres(e):
        if not ok(e): return False
        for nv in e["nav"]:
            for row in nv["r"]:
                if row[0] == 1 and row[1] == 0:
                    row[5] = row[5] + 1 if row[5] < 12 else 1
                    return True
        return False
    def navback(e):
        if not ok(e): return False
        for nv in e["nav"]:
            for row in nv["r"]:
                if row[0] == 13 and row[1] == 0:
                    row[11] += 1
                    return True
        return False
    def eve(e):
        if not ok(e) or e["eve"]["p"] != 0: return False
        e["eve"]["next"] = [e["y"] + 1, 1, 2]
        return True
    def tn(e):
        if not ok(e): return False
        e["tn"][2][2] = 59 - e["tn"][2][2]
        return True
    r.negctl("Trace_Lunar", ch[:3], {"C06Year": [
        (swap_len, "C06.months.length29or30"), (shift, "C06.months.contiguous"), (leap, "C06.year.leapMonth"),
        (navres, "C06.next.successor"), (navback, "C06.next.back"), (eve, "C06.eve.next-is-new-year"), (tn, "C06.neighbours.agree"),
        (lambda e: ok(e) and bump(["days"])(e), "C06.year.dayCount")]}, per_kind=1)
    if ch_e:
        r.negctl("Trace_Lunar", ch_e[0], {"LunarEdge": [(lambda e: e["p"] == 0 and bump(["res", 3])(e), "C06.edge.MonthNext")]})


@plan("C01", "model_checking")
def c01(r):
    thorough = r.tier == "thorough"
    r.rule = ("TLC model-checks MC_Lunar on the tables dumped from the current tree (invariant ConvertOK: looking a civil day up in "
              "its civil year's table gives the chain position, and the lunar->civil map inverts it; CoverOK: no uncovered day) and "
              "every DayNext(n) edge, n in {+-1,+-29,+-30,+-354,+-384}, is executed on real Lunar objects (lunar-side and civil-side "
              "stepping). One frame per civil year (%s) carries the year's table and, for every day at a rotating time of day "
              "(00:00:00, 12:00:00, 23:00:00, 23:59:59, 00:59:59, 22:59:59, random): Solar.GetLunar, NewLunar from those numbers, its "
              "civil date, the way back, the digest of all zero-argument getters of both objects (path independence), Lunar.Next(n) vs "
              "civil NextDay(n). TLC checks the unique-month lookup, both round trips, strict order along the year, injectivity. "
              "Distinct non-trivial case = distinct civil day or distinct (lunar date, n) edge." %
              ("every civil year 1..9998, all 3.65M days; getter digests on every 10th day" if thorough else "100 seeded + 25 boundary years; getter digests on every 3rd day"))
    r.assumptions += ["the month table is the code's own published table (its truth is C06/C02); this check decides the conversions given the table",
                      "path independence is compared through a digest of the rendered results of all exported zero-argument methods"]
    r.build()
    ch_e = lunar_model(r, "DayNext")
    ch = r.drive("c01years", args={"years": 100, "digest": 10 if thorough else 3}, maxlines=12)
    r.validate("Trace_Lunar", ch)
    r.sample_from(ch[:1] + ch_e[:1])
    r.cov["samples"] = [s[:500] for s in r.cov["samples"]]
    days = 0
    for c in ch:
        for line in open(c, encoding="utf-8"):
            days += len(json.loads(line)["rows"])
    r.cov["days_converted"] = days
    r.cov["distinct_nontrivial"] = days + r.cov["replayed_edges"]
    def rowmut(field, idx, delta=1):
        def f(e):
            if e["p"] != 0 or len(e["rows"]) < 50:
                return False
            row = e["rows"][40]
            if row.get("pa") != 0 or row.get("pb") != 0 or field not in row:
                return False
            if field == "nx":
                row[field][0][idx] += delta
            else:
                row[field][idx] += delta
            return True
        return f
    def dig(e):
        for row in e["rows"]:
            if "da" in row:
                row["db"] = "0" * 16
                return True
        return False
    def dup(e):
        if len(e["rows"]) < 60:
            return False
        e["rows"][50]["a"] = list(e["rows"][49]["a"])
        return True
    r.negctl("Trace_Lunar", ch[:4], {"C01Year": [
        (rowmut("a", 2), "C01.toLunar"), (rowmut("bs", 2), "C01.fromLunar.civil-day"), (rowmut("bl", 1), "C01.fromLunar.back"),
        (rowmut("nx", 8), "C01.next.civil-day"), (rowmut("nx", 4), "C01.next.same-as-civil-route"), (dig, "C01.path-independence"),
        (dup, "C01.injective")]}, per_kind=1)
    if ch_e:
        r.negctl("Trace_Lunar", ch_e[0], {"LunarEdge": [(lambda e: e["p"] == 0 and bump(["res", 2])(e), "C01.edge.DayNext")]})


@plan("C03", "exploration")
def c03(r):
    thorough = r.tier == "thorough"
    r.rule = ("TLC model-checks MC_Terms (lookup operators of Terms.tla on a synthetic 31-entry table: every query position relative "
              "to every entry - before, equal, after, same day earlier/later - x 3 filters x 2 modes; prev <= q < next and nothing in "
              "between). One frame per civil year (%s): the 31 real-valued instants (ms), the table of Solar objects with its key order, "
              "next year's shared entries, the library's own apparent solar longitude one second before/after each instant (verif hook), "
              "an independent Meeus low-precision longitude with Espenak-Meeus Delta-T, and ~160 query moments inside the year (each "
              "entry's instant, +-1 s, 00:00:00 and 23:59:59 of its day, neighbours, 20 random, year ends) with all 12 prev/next variants, "
              "GetJieQi/GetJie/GetQi, GetCurrent*. Distinct non-trivial case = distinct query moment." %
              ("every civil year 1..9998" if thorough else "200 seeded + 18 boundary years"))
    r.assumptions += ["one-second precision is relative to the library's own ephemeris (hook VerifSaLon); the independent series resolves ~0.02 degree (20 minutes) for years 1..3000 and is widened quadratically beyond",
                      "harness/ephem (Meeus ch.25 low accuracy Sun, Espenak-Meeus Delta-T) is trusted base"]
    r.build()
    r.mc("MC_Terms", "MC_Terms")
    ch = r.drive("c03years", args={"years": 200, "rand": 20}, maxlines=20)
    r.validate("Trace_Lunar", ch)
    r.sample_from(ch[:1])
    r.cov["samples"] = [s[:600] for s in r.cov["samples"]]
    nq = 0
    for c in ch:
        for line in open(c, encoding="utf-8"):
            nq += len(json.loads(line).get("q", []))
    r.cov["query_moments"] = nq
    r.cov["distinct_nontrivial"] = nq
    def qmut(field):
        def f(e):
            for q in e["q"]:
                if q["p"] == 0 and len(q[field]) == 9:
                    q[field][6] = (q[field][6] + 1) % 60
                    return True
            return False
        return f
    def nxt_same(e):
        # simulate 'next returns the term at the query instant itself' (the 1.3.10 bug): replace next by prev where q = instant
        for q in e["q"]:
            if q["p"] == 0 and len(q["pa"]) == 9 and q["pa"][1:7] == q["at"]:
                q["na"] = list(q["pa"])
                return True
        return False
    def lonmut(e):
        e["lon"][7][0] = 5
        return True
    def indmut(e):
        e["lon"][9][2] += 900000
        return True
    def order(e):
        e["tab"][10], e["tab"][11] = e["tab"][11], e["tab"][10]
        return True
    def share(e):
        e["nx"][3][1] += 1000
        return True
    def name(e):
        for q in e["q"]:
            if q["p"] == 0 and q["name"][0] != "":
                q["name"][0] = ""
                return True
        return False
    r.negctl("Trace_Lunar", ch[:3], {"C03Year": [
        (qmut("pj"), "C03.lookup.prevJie"), (qmut("nqw"), "C03.lookup.nextQi.wholeDay"), (nxt_same, "C03.lookup.nextJieQi"),
        (lonmut, "C03.longitude.own-ephemeris"), (indmut, "C03.longitude.independent"), (order, "C03.table.canonical-order"),
        (share, "C03.table.shared-with-next-year"), (name, "C03.ofDay.name"),
        (lambda e: bump(["tab", 5, 6])(e), "C03.table.instant")]}, per_kind=1)


@plan("C05", "exploration")
def c05(r):
    thorough = r.tier == "thorough"
    r.rule = ("TLC model-checks MC_GanZhi (the closed forms of GanZhi.tla against the classical rules for every combination: "
              "continuous month cycle = five tigers for 180 pillar years x 12 months, five rats for 60 days x 13 slots, parity, "
              "unit steps). One frame per civil year (%s): the term table and ~250 moments - each of the 12 Jie instants and +-1 s, "
              "00:00:00 / 23:00:00 / 23:59:59 of each Jie day and its neighbours, the 23:00 and midnight boundaries on 6 seeded days, "
              "every two-hour slot boundary +-1 s on 2 seeded days, lunar New Year's Eve/Day, Dec 26..Jan 3, 10 random - with the 18 "
              "index getters, 19 name getters, EightChar under SetSect(1) and (2), the LunarTime object. TLC recomputes every pillar from "
              "(JDN, second of day, lunar year, Jie instants). Distinct non-trivial case = distinct moment." %
              ("every civil year 1..9998" if thorough else "150 seeded + 22 boundary years"))
    r.assumptions += ["the New-Year-based year pillar takes the lunar year number from the library's conversion (decided by C01/C06)",
                      "the hour stem follows the early-rat day stem (the only reading under which 23:00 and 00:00 of one slot share a pillar)"]
    r.build()
    r.mc("MC_GanZhi", "MC_GanZhi")
    ch = r.drive("c05years", args={"years": 150}, maxlines=12)
    r.validate("Trace_Lunar", ch)
    r.sample_from(ch[:1])
    r.cov["samples"] = [s[:600] for s in r.cov["samples"]]
    nq = 0
    for c in ch:
        for line in open(c, encoding="utf-8"):
            nq += len(json.loads(line).get("q", []))
    r.cov["moments"] = nq
    r.cov["distinct_nontrivial"] = nq
    def idxmut(i, sod_pred=None):
        def f(e):
            for q in e.get("q", []):
                if q["p"] == 0 and (sod_pred is None or sod_pred(q["at"])):
                    q["idx"][i] = (q["idx"][i] + 2) % 10
                    return True
            return False
        return f
    def strmut(i):
        def f(e):
            for q in e.get("q", []):
                if q["p"] == 0:
                    q["str"][i] = "甲子" if q["str"][i] != "甲子" else "乙丑"
                    return True
            return False
        return f
    def ecmut(e):
        for q in e.get("q", []):
            if q["p"] == 0 and q["at"][3] == 23:
                q["ec1"][2] = q["ec2"][2]
                return True
        return False
    r.negctl("Trace_Lunar", ch[:4], {"C05Year": [
        (idxmut(0), "C05.year.newYear"), (idxmut(2), "C05.year.lichunDay"), (idxmut(4), "C05.year.lichunInstant"),
        (idxmut(6), "C05.month.jieDay"), (idxmut(8), "C05.month.jieInstant"), (idxmut(10), "C05.day"),
        (idxmut(12), "C05.day.earlyRat"), (idxmut(16), "C05.hour"), (strmut(4), "C05.names"), (ecmut, "C05.eightChar.sect1")]}, per_kind=1)


# ---------------------------------------------------------- almanac family
def year_frames(r, cmd, spec, years, maxlines, rowkey="rows"):
    ch = r.drive(cmd, args={"years": years}, maxlines=maxlines)
    r.validate(spec, ch)
    r.sample_from(ch[:1])
    r.cov["samples"] = [s[:600] for s in r.cov["samples"]]
    n = 0
    for c in ch:
        for line in open(c, encoding="utf-8"):
            n += len(json.loads(line).get(rowkey, []))
    r.cov["days_observed"] = n
    r.cov["distinct_nontrivial"] = n
    return ch


def row_with(e, pred, k=0):
    c = 0
    for row in e.get("rows", []):
        if row.get("p") == 0 and pred(row):
            if c == k:
                return row
            c += 1
    return None


@plan("C13", "exploration")
def c13(r):
    thorough = r.tier == "thorough"
    r.rule = ("TLC model-checks MC_Seasonal (dog-day periods for every stem of the solstice day x solstice-to-Liqiu distance 44..49: "
              "three contiguous periods of 10, 10|20, 10 days, day index +1 per day; nine-nines: 81 days in 9 groups; pentads: 3 per term, "
              "72 in order). One frame per civil year (%s) with the term table and every day's (at a time of day rotating through noon, 23:30, midnight, 06:45:10, 23:00) GetShuJiu, GetFu, GetHou, GetWuHou (as "
              "position in the library's 72-name list), GetFestivals, GetOtherFestivals and lunar date (+ 1 Jan of the next year); TLC "
              "recomputes each from Seasonal.tla. Distinct non-trivial case = distinct civil day." %
              ("every civil year 1..9998, 3.65M days" if thorough else "150 seeded + 22 boundary years"))
    r.build()
    r.mc("MC_Seasonal", "MC_Seasonal")
    ch = year_frames(r, "c13years", "Trace_Almanac", 150, 10)
    def sj(e):
        row = row_with(e, lambda x: len(x["sj"]) == 4)
        if not row: return False
        row["sj"][1] = row["sj"][1] % 9 + 1
        return True
    def sjabs(e):
        row = row_with(e, lambda x: len(x["sj"]) == 0 and x["x"] == 0)
        if not row: return False
        row["sj"] = ["一九", 1, "一九", "一九第1天"]
        return True
    def fu(e):
        row = row_with(e, lambda x: len(x["fu"]) == 4)
        if not row: return False
        row["fu"][0] = "末伏" if row["fu"][0] != "末伏" else "中伏"
        return True
    def hou(e):
        row = row_with(e, lambda x: x["x"] == 0, 30)
        row["hou"] = row["hou"].replace("初候", "X").replace("二候", "初候").replace("X", "二候") if "三候" not in row["hou"] else row["hou"].replace("三候", "二候")
        return True
    def wh(e):
        row = row_with(e, lambda x: x["x"] == 0, 100)
        row["wh"] = (row["wh"] + 1) % 72
        return True
    def chuxi(e):
        row = row_with(e, lambda x: "除夕" in x["f"])
        if not row: return False
        row["f"] = [v for v in row["f"] if v != "除夕"]
        return True
    def hanshi(e):
        row = row_with(e, lambda x: "寒食节" in x["o"])
        if not row: return False
        row["o"] = [v for v in row["o"] if v != "寒食节"]
        return True
    def she(e):
        row = row_with(e, lambda x: x["x"] == 0 and "春社" not in x["o"], 70)
        row["o"] = row["o"] + ["春社"]
        return True
    r.negctl("Trace_Almanac", ch[:3], {"C13Year": [(sj, "C13.shuJiu"), (sjabs, "C13.shuJiu.absent"), (fu, "C13.fu"), (hou, "C13.hou"),
                                                   (wh, "C13.wuHou"), (chuxi, "C13.chuXi"), (hanshi, "C13.hanShi"), (she, "C13.chunShe")]}, per_kind=1)


@plan("C16", "exploration")
def c16(r):
    thorough = r.tier == "thorough"
    r.rule = ("TLC model-checks MC_NineStar (year star: -1 per pillar year, 2024 = three, period 9 and agreement with the 180-year "
              "three-cycle formula transcribed from the code for years 1..9999; day star: up from 0 at the winter anchor, down from 8 at "
              "the summer anchor for all anchor distances; hour star: 3 branch groups x 2 halves x 12 slots). One frame per civil year "
              "(%s) with the term table, the previous year's summer solstice, every day's year star under 3 conventions, month star "
              "under 3 conventions (step at each Jie day; instant level one second around each Jie instant), day star, hour stars on 12 "
              "slots of ~19 days incl. the solstice days, and the naming getters of all nine star objects. "
              "Distinct non-trivial case = distinct civil day." % ("every civil year 2..9998" if thorough else "100 seeded + 22 boundary years"))
    r.assumptions += ["month star: only the step at each Jie is demanded; under convention 1 days on which the New-Year-based year changes are skipped",
                      "day star: a 30/30 tie between the two jiazi days around a solstice accepts either anchor",
                      "hour star at 23:00-23:59 is not judged (the statement does not say which day's branch applies)"]
    r.build()
    r.mc("MC_NineStar", "MC_NineStar")
    ch = year_frames(r, "c16years", "Trace_Almanac", 100, 8)
    def rowmut(field, idx, k=50):
        def f(e):
            row = row_with(e, lambda x: x["x"] == 0, k)
            if not row: return False
            if idx is None:
                row[field] = (row[field] + 1) % 9
            else:
                row[field][idx] = (row[field][idx] + 1) % 9
            return True
        return f
    def hsmut(e):
        for h in e["hs"]:
            if h["p"] == 0:
                h["ts"] = (h["ts"] + 1) % 9
                return True
        return False
    def jsmut(e):
        for j in e["js"]:
            if j["p"] == 0 and j["ds"] == 0:
                j["m3"] = (j["m3"] + 1) % 9
                return True
        return False
    def names(e):
        e["names"][4][5] = e["names"][3][5]
        return True
    r.negctl("Trace_Almanac", ch[:3], {"C16Year": [
        (rowmut("ys", 0), "C16.yearStar.newYear"), (rowmut("ys", 1), "C16.yearStar.lichunDay"), (rowmut("ys", 2), "C16.yearStar.lichunInstant"),
        (rowmut("ms", 1), "C16.monthStar.lichunDay"), (rowmut("ds", None), "C16.dayStar"), (hsmut, "C16.hourStar"),
        (jsmut, "C16.monthStar.jieInstant"), (names, "C16.names")]}, per_kind=1)


@plan("C17", "exploration")
def c17(r):
    thorough = r.tier == "thorough"
    r.rule = ("One frame per civil year (%s): every day at a rotating time of day: lunar, Taoist and Buddhist year/month/day, NewTao / "
              "NewFoto built from those numbers (numbers given back, same moment), 14 day-class predicates (each guarded separately), "
              "the Buddhist day mansion, the day pillar, the day's solar term, the month length. TLC checks the fixed year offsets "
              "(+2697, +544), the round trips, each predicate against the hand-written definitional set of Religious.tla, functional "
              "dependence of the (month, day)-defined predicates within the year, the mansion advancing one per day inside a month. "
              "TLC also model-checks MC_Religious (closed-list laws over all 24 x 30 month-days x 60 pillars). Distinct non-trivial case = distinct civil day." %
              ("every civil year 1..9998" if thorough else "150 seeded + 22 boundary years"))
    r.assumptions += ["closed-list predicates (san-hui, san-yuan, wu-la) are judged on non-leap months only; the definitions do not say whether a leap month counts",
                      "IsDayZhaiGuanYin is checked for functional dependence only (its list is library data)"]
    r.build()
    r.mc("MC_Religious", "MC_Religious")
    ch = year_frames(r, "c17years", "Trace_Almanac", 150, 8)
    def m(field, idx, k=40):
        def f(e):
            row = row_with(e, lambda x: "pred" in x, k)
            if not row: return False
            row[field][idx] += 1
            return True
        return f
    def pred(i, k=40):
        def f(e):
            row = row_with(e, lambda x: "pred" in x and x["pred"][i] != 2 and x["l"][1] > 0, k)
            if not row: return False
            row["pred"][i] = 1 - row["pred"][i]
            return True
        return f
    r.negctl("Trace_Almanac", ch[:4], {"C17Year": [
        (m("t", 0), "C17.tao.year-month-day"), (m("f", 0), "C17.foto.year-month-day"), (m("tr", 5), "C17.tao.roundtrip"), (m("fr", 2), "C17.foto.roundtrip"),
        (pred(0), "C17.sanHui"), (pred(3), "C17.baJie"), (pred(4), "C17.baHui"), (pred(6), "C17.anWu"), (pred(9), "C17.yangGong"),
        (pred(11), "C17.zhaiSix"), (pred(12), "C17.zhaiTen")]}, per_kind=1)


# --------------------------------------------------------------------- C14
def tla_tuple_to_py(text):
    return json.loads(text.replace("<<", "[").replace(">>", "]"))


@plan("C14", "model_checking")
def c14(r):
    import random as _r
    thorough = r.tier == "thorough"
    r.rule = ("TLC model-checks MC_Holiday (state = record set; Fix with 1-2 segments over a 6-day universe with interleaved targets; "
              "the four views partition the set, a Fix changes exactly the named days, workday stepping lands on a working day with |n| passed) "
              "and %s of its depth-2 behaviours are replayed on the real HolidayUtil (VerifReset, Fix, raw records of the touched years, "
              "a digest of all other records, the views of the touched years/targets, workday steps of up to 9 days around the touched days; every sixth behaviour ends with a names-only fix-up (12 names) followed by adding, replacing and removing records with name indices 9..11, views re-read each time). On the built-in "
              "table: every day 2000-2027 by day (three accessors), every month, year and target view, Next(n, workday) from every day "
              "2001-2026 for n in {+-1..+-15}, GetSalaryRate every day. The trace specification carries the record set, loaded from the raw "
              "18-byte records. Distinct non-trivial case = distinct (day or view) query or distinct Fix behaviour." %
              ("all" if thorough else "1500 seeded"))
    r.assumptions += ["the raw record string exported under the verif tag is the ground truth of the table",
                      "lunar month/day and the Qingming flag used by the pay-rate rule are the library's own (C01/C03)"]
    r.build()
    r.mc("MC_Holiday", "MC_Holiday")
    leaves = r.export_edges("MC_Holiday", "MBT_Holiday")
    if not thorough:
        _r.Random(r.seed).shuffle(leaves)
        leaves = sorted(leaves[:1500])
    lines = []
    for lf in leaves:
        hist = tla_tuple_to_py(lf)
        calls = []
        for call in hist:
            segs = []
            for s in call:
                if s[1] == 1:
                    segs.append("rm:%d" % s[0])
                else:
                    segs.append("add:%d:%d:%d:%d" % (s[0], s[2], s[3], s[4]))
            calls.append(";".join(segs))
        lines.append("|".join(calls))
    seqf = os.path.join(r.dir, "fixseqs.txt")
    write_lines(seqf, lines)
    r.cov["replayed_edges"] = len(lines)
    ch_f = r.drive("c14fix", args={"seqs": seqf}, maxlines=900)
    r.validate("Trace_Holiday", ch_f)
    ch_v = r.drive("c14views", shards=1, maxlines=0)
    r.validate("Trace_Holiday", ch_v)
    ch_w = r.drive("c14work", maxlines=0)
    r.validate("Trace_Holiday", ch_w)
    r.sample_from([ch_f[0]])
    r.cov["samples"] = [s[:300] for s in r.cov["samples"]] + lines[:2]
    nq = 0
    for c in ch_v + ch_w:
        for line in open(c, encoding="utf-8"):
            e = json.loads(line)
            nq += len(e.get("days", [])) + len(e.get("months", [])) + len(e.get("rows", [])) + len(e.get("t", []))
    r.cov["queries"] = nq
    r.cov["distinct_nontrivial"] = nq + len(lines)
    def fixmut(e):
        if e["p"] != 0 or not e["after"]:
            return False
        e["after"][0][2] = 1 - e["after"][0][2]
        return True
    def fixrest(e):
        e["rest"] = "0" * 16
        return True
    r.negctl("Trace_Holiday", ch_f[0], {"C14Fix": [(fixmut, "C14.fix.exact"), (fixrest, "C14.fix.others-unchanged")]})
    def daymut(e):
        if not e["days"]: return False
        e["days"][0][2][2] = 1 - e["days"][0][2][2]
        return True
    def monthdrop(e):
        for mth in e["months"]:
            if len(mth[2]) > 1:
                mth[2].pop(0)
                return True
        return False
    def yearswap(e):
        if len(e["year"][1]) < 2: return False
        e["year"][1][0], e["year"][1][1] = e["year"][1][1], e["year"][1][0]
        return True
    def tgt(e):
        for t in e["t"]:
            if len(t[2]) > 1 and t[0] not in (20141001, 20151001, 20171001):
                t[2].pop()
                t[3].pop()
                return True
        return False
    r.negctl("Trace_Holiday", ch_v[0], {"C14Views": [(daymut, "C14.byDay"), (monthdrop, "C14.byMonth"), (yearswap, "C14.byYear")],
                                         "C14Targets": [(tgt, "C14.byTarget")]})
    def wk(e):
        for row in e["rows"]:
            if row["p"] == 0 and row["nx"]:
                row["nx"][0][1] = row["d"]
                return True
        return False
    def sal(e):
        for row in e["rows"]:
            if row["p"] == 0 and "sal" in row:
                row["sal"][0] = row["sal"][0] % 3 + 1
                return True
        return False
    r.negctl("Trace_Holiday", ch_w[:4], {"C14Work": [(wk, "C14.workday."), (sal, "C14.salaryRate")]}, per_kind=1)


# --------------------------------------------------------------------- C09
@plan("C09", "model_checking")
def c09(r):
    thorough = r.tier == "thorough"
    r.rule = ("TLC model-checks Cache.tla (lock + one-slot cache protocol of NewLunarYear, one action per trace point): %s; mutual exclusion, "
              "cache never exposes an unfinished year, result = table of the requested year, lock free when idle, progress under weak "
              "fairness. Two hazard configurations are kept as documentation of what the binding must exclude (a year whose computation "
              "panics leaks the lock; a lazily initialised field races): TLC is expected to find those violations. Every lock-acquisition "
              "order of the model (%s) is forced on real goroutines through the blocking gate hook and the hook trace is folded through the "
              "protocol by Trace_Cache; every call sequence of length <= %d over an alphabet of 10 calls (3 years incl. a leap-11 year, month "
              "walking across years, two invalid calls that panic and are recovered) is executed in one process and each result compared with "
              "its reference; each of 18 calls is also made as the very first library call of a fresh process and compared with itself warm; fresh processes make the first use of every accessor from 16 goroutines released together at a barrier and compare with the single-goroutine values (a runtime abort 'concurrent map ...' whose innermost non-runtime frame is library code is a rejection); a battery of 15 000 table lookups and conversions is executed by four processes in four different orders and their per-family digests must agree; a -race build runs 16 goroutines of mixed calls plus rounds of 8 goroutines reading one fresh shared object, "
              "race reports become events that no action accepts. Every public non-setter method of 21 object types is called twice on sample "
              "objects with a digest of all accessors of the receiver before and after (a call must not change its receiver and must repeat its "
              "result); one letter of the history alphabet writes garbage through every setter of every object the accessors hand out (holiday records included), and every sample object must read the same after every setter of every object it handed out was called. Session.tla specifies the whole mutable state a client can see (date objects with "
              "their chart convention, chart handles as views, the holiday table) and which call may change which part; TLC checks the frame "
              "conditions (%s) and enumerates every session of 4 calls (Create / Handle / SetSect / Fix / Rename / recovered panic / Write = every setter of every handed-out object; 38 944), %s of which are "
              "executed on real objects with a digest of every accessor of every live object after every call: an object nobody touched and a "
              "holiday day no fix-up touched must show their fresh-state reference. Distinct non-trivial case = distinct schedule, history or session." %
              ("4 processes x 2 calls (12M states) and 3 x 2 with liveness" if thorough else "3 processes x 2 calls x 2 years (97k states)",
               "2520 orders of 4x2" if thorough else "90 orders of 3x2", 5 if thorough else 4,
               "594k states, depth 5" if thorough else "42k states, depth 4", "all" if thorough else "2 500 seeded"))
    r.assumptions += ["interleavings are exhaustive at lock granularity for 3-4 goroutines; below that granularity the Go race detector observes executed schedules only",
                      "NewLunarYear's computation is total (no panic under the lock): observed for years -2000..12000 in this run, not proved"]
    r.build()
    r.build(race=True)
    r.mc("MC_Cache", "MC_Cache", timeout=600)
    if thorough:
        r.mc("MC_Cache", "MC_Cache_4", timeout=1800, heap="24g", nocov=True)
    # hazard configurations: the model must exhibit the hazards (otherwise the model lost them)
    for cfg, inv in (("MC_Cache_bad", "NoLockLeak"), ("MC_Cache_lazy", "NoRace")):
        info, out = r.mc("MC_Cache", cfg, expect_ok=False)
        if "Invariant %s is violated" % inv not in out:
            raise Infra("hazard configuration %s no longer exhibits the %s hazard" % (cfg, inv))
        r.cov["mc_runs"][-1]["expected_violation"] = inv
    orders = r.export_edges("MC_Cache", "MBT_Cache_4" if thorough else "MBT_Cache")
    of = os.path.join(r.dir, "orders.txt")
    write_lines(of, [o.replace("<<", "").replace(">>", "").replace(",", " ") for o in orders])
    r.cov["replayed_edges"] = len(orders)
    ch_s = r.drive("c09sched", args={"orders": of}, maxlines=0, shards=4)
    r.validate("Trace_Cache", ch_s)
    ch_h = r.drive("c09hist", args={"len": 5 if thorough else 4}, maxlines=4000)
    r.validate("Trace_Cache", ch_h)
    # cold start: each of 18 calls as the very first library call of its own process, then again warm
    ch_c = r.drive("c09cold", maxlines=0, shards=18)
    r.validate("Trace_Cache", ch_c)
    # first use by many goroutines at once: fresh processes, goroutines released together before every accessor
    ch_f1 = r.drive("c09first", maxlines=0, shards=16 if thorough else 8, args={"g": 16})
    if ch_f1:
        r.validate("Trace_Cache", ch_f1)
        def first_mut(e):
            e["rows"][3][1] = "0" * 16
            return True
        r.negctl("Trace_Cache", ch_f1[0], {"C09First": [(first_mut, "C09.result.independent-of-concurrent-first-use")]}, per_kind=1)
    # probes, recovered panics (incl. a fix-up whose name list is too short), the same probes again, each with a deadline
    ch_b = r.drive("c09block", maxlines=0, shards=1)
    r.validate("Trace_Cache", ch_b)
    def blk_mut(e):
        e["rows"][0][3] = 1
        return True
    def blk_res(e):
        e["rows"][2][2] = "0" * 12
        return True
    r.negctl("Trace_Cache", ch_b[0], {"C09Block": [(blk_mut, "C09.blocked-after-a-recovered-panic")]}, per_kind=1)
    r.negctl("Trace_Cache", ch_b[0], {"C09Block": [(blk_res, "C09.result.independent-of-history")]}, per_kind=1)
    # the same battery in four processes, four orders; the plan only ASSEMBLES their reports into one event for TLC
    ch_o = r.drive("c09orders", maxlines=0, shards=4)
    procs = []
    for cfile in ch_o:
        for line in open(cfile, encoding="utf-8"):
            e = json.loads(line)
            procs.append({"mode": e["mode"], "fam": e["fam"]})
    of2 = os.path.join(r.dir, "c09orders.merged.ndjson")
    write_lines(of2, [json.dumps({"ev": "C09Orders", "procs": procs}, ensure_ascii=False)])
    r.drivers[of2] = r.drivers.get(ch_o[0])
    r.validate("Trace_Cache", [of2])
    def ord_mut(e):
        e["procs"][2]["fam"][0][1] = "0" * 16
        return True
    r.negctl("Trace_Cache", of2, {"C09Orders": [(ord_mut, "C09.result.independent-of-call-order")]}, per_kind=1)
    # totality of the computation under the lock
    ch_t = r.drive("c09total", maxlines=0, shards=8)
    r.validate("Trace_Cache", ch_t)
    racelog = os.path.join(r.dir, "racelog")
    ch_r = r.drive("c09stress", race=True, shards=2, maxlines=0, args={"ms": 60000 if thorough else 3000, "rounds": 600 if thorough else 60},
                   env={"VERIF_RACE_LOG": racelog, "GORACE": "log_path=%s halt_on_error=0 exitcode=0" % racelog})
    r.validate("Trace_Cache", ch_r)
    r.sample_from([ch_s[0], ch_h[0]])
    r.cov["samples"] = [s[:500] for s in r.cov["samples"]]
    r.count_distinct(ch_s + ch_h, lambda e: tuple(e["order"]) if e.get("ev") == "C09Run" else (tuple(e["seq"]) if e.get("ev") == "C09Hist" else None))
    def drop_release(e):
        for i, ev in enumerate(e["events"]):
            if ev[1] == "released":
                del e["events"][i]
                return True
        return False
    def swap_hit(e):
        for ev in e["events"]:
            if ev[1] == "hit":
                ev[1] = "miss"
                return True
        return False
    def dig(e):
        e["calls"][0][3] = "0" * 12
        return True
    def lockheld(e):
        e["lockfree"] = 0
        return True
    r.negctl("Trace_Cache", ch_s[0], {"C09Run": [(drop_release, "C09.protocol."), (swap_hit, "C09.protocol."), (dig, "C09.result.independent-of-schedule"), (lockheld, "C09.lock.left-held")]})
    def hdig(e):
        e["calls"][-1][1] = "x"
        return True
    r.negctl("Trace_Cache", ch_h[0], {"C09Hist": [(hdig, "C09.result.independent-of-history")]})
    # purity: non-setter calls leave their receiver unchanged and repeat their result
    ch_p = r.drive("c09pure", args={"moments": 200 if thorough else 14}, maxlines=0)
    r.validate("Trace_Cache", ch_p)
    ALONE = "alone vs after the others"
    def pure_recv(e):
        for row in e["rows"]:
            if row[2] != ALONE:
                row[4] = "0" * 16
                return True
        return False
    def pure_res(e):
        for row in reversed(e["rows"]):
            if row[2] not in (ALONE, "written through"):
                row[6] = "0" * 12
                return True
        return False
    def pure_written(e):
        for row in e["rows"]:
            if row[2] == "written through":
                row[4] = "0" * 12
                return True
        return False
    def pure_alone(e):
        for row in e["rows"]:
            if row[2] == ALONE:
                row[4] = "0" * 12
                return True
        return False
    r.negctl("Trace_Cache", ch_p[:2], {"C09Pure": [(pure_recv, "C09.pure.call-changes-its-receiver"), (pure_res, "C09.pure.same-call-different-result"),
                                                    (pure_alone, "C09.pure.result-depends-on-earlier-accessors"),
                                                    (pure_written, "C09.pure.handed-out-object-is-not-the-callers-own")]}, per_kind=1)
    # the library as one state machine (Session.tla): TLC enumerates client sessions, real objects replay them
    r.mc("MC_Session", "MC_Session_5" if thorough else "MC_Session", timeout=900)
    sessions = r.export_edges("MC_Session", "MBT_Session")
    if not thorough:
        _r.Random(r.seed).shuffle(sessions)
        sessions = sorted(sessions[:2500])
    slines = []
    for s in sessions:
        slines.append("|".join("%s:%d:%d" % (a[0], a[1], a[2]) for a in tla_tuple_to_py(s)))
    sf = os.path.join(r.dir, "sessions.txt")
    write_lines(sf, slines)
    r.cov["replayed_edges"] += len(slines)
    r.cov["sessions_replayed"] = len(slines)
    ch_x = r.drive("c09sessions", args={"sessions": sf}, maxlines=3000)
    r.validate("Trace_Session", ch_x)
    for s in slines:
        r.nontrivial.add(("session", s))
    def s_lunar(e):
        for i, d in enumerate(e["obs"]["lunar"]):
            if d:
                e["obs"]["lunar"][i] = "0" * 16
                return True
        return False
    def s_chart(e):
        # the digest of the other convention: what a chart that ignored SetSect (or leaked it) would show
        for i, d in enumerate(e["obs"]["chart"]):
            if d:
                e["obs"]["chart"][i] = d[::-1]
                return True
        return False
    def s_hol(e):
        e["obs"]["hol"][0] = "none" if e["obs"]["hol"][0] != "none" else "x"
        return True
    def s_panic(e):
        e["p"] = 1 - e["p"]
        return True
    r.negctl("Trace_Session", ch_x[0], {"SessStep": [(s_lunar, ("C09.session.lunar", "EXT.session.lunar")), (s_chart, ("C09.session.chart", "EXT.session.chart")), (s_hol, ("C09.session.holiday", "EXT.session.holiday")), (s_panic, "C09.session.recovered-panic")]})


# --------------------------------------------------------------- C10 / C12
@plan("C10", "exploration")
def c10(r):
    thorough = r.tier == "thorough"
    r.rule = ("TLC model-checks MC_BaZi (SameSlot is an equivalence over the hour marks of a 3-day window with 37 / 39 classes for the two "
              "day-boundary conventions; both halves of the rat slot share day and hour pillar under the early-rat convention). Lookups: "
              "for base years {1900 (default), 1800, 1984, 2000, 1500 (Julian era)} and %s, ~170 moments per year: each Jie instant, +-1 s, +-1 min, the start, "
              "middle and end of its two-hour slot and of the neighbouring slots, 23:00 / 23:59:59 / 00:00 / 00:59:59 around seeded midnights, "
              "random moments; both conventions; the three entry points. TLC checks soundness (every result has the query pillars and is not "
              "before the base year), strict order, completeness (a result in the query's slot). Distinct non-trivial case = distinct (moment, convention, base)." %
              ("every year from the base to the present" if thorough else "25 seeded years per base + the first/last two"))
    r.assumptions += ["the forward pillars of queries and results are the library's own (their correctness is C05)",
                      "the end of the domain is the wall-clock year, read by the library; the driver logs it and the specification takes it as a parameter"]
    r.build()
    r.mc("MC_BaZi", "MC_BaZi")
    ch = r.drive("c10lookups", args={"years": 25, "rand": 8}, maxlines=6)
    r.validate("Trace_BaZi", ch)
    r.sample_from(ch[:1])
    r.cov["samples"] = [s[:500] for s in r.cov["samples"]]
    n = 0
    for c in ch:
        for line in open(c, encoding="utf-8"):
            n += len(json.loads(line).get("rows", []))
    r.cov["lookups"] = n
    r.cov["distinct_nontrivial"] = n
    def first(e, pred):
        for row in e.get("rows", []):
            if row["p"] == 0 and pred(row):
                return row
        return None
    def unsound(e):
        row = first(e, lambda x: len(x["r"]) > 0)
        if not row: return False
        row["r"][0]["pz"][1] = "甲子" if row["r"][0]["pz"][1] != "甲子" else "乙丑"
        return True
    def unsorted(e):
        row = first(e, lambda x: len(x["r"]) > 1)
        if not row: return False
        row["r"][0], row["r"][1] = row["r"][1], row["r"][0]
        return True
    def incomplete(e):
        row = first(e, lambda x: len(x["r"]) > 0 and x["q"][3] in (10, 11, 12) and any(y["at"][:3] == x["q"][:3] for y in x["r"]))
        if not row: return False
        row["r"] = [x for x in row["r"] if x["at"][:3] != row["q"][:3]]
        return True
    def early(e):
        row = first(e, lambda x: len(x["r"]) > 0)
        if not row: return False
        row["b"] = row["r"][0]["at"][0] + 1
        return True
    r.negctl("Trace_BaZi", ch[:8], {"C10Year": [(unsound, "C10.sound.pillars"), (unsorted, "C10.sorted"), (incomplete, "C10.complete"), (early, "C10.sound.base-year")]}, per_kind=1)


@plan("C12", "exploration")
def c12(r):
    thorough = r.tier == "thorough"
    r.rule = ("TLC model-checks MC_Fortune (school-2 offsets over every minute distance 0..46080 stay in range and convert back exactly; "
              "school-1 offsets over all pairs of instants up to 32 days apart on a half-hour grid stay in range and differ from school 2 by at "
              "most one slot's worth). Births (~1 570 fixed + %s): Jie instants +-1 s / +-1 min / +-1 h and their day ends in 12 boundary years (1, 2, 100, "
              "1582, 1583, 1900, 1984, 2000, 2012, 2020, 2024, 9990), 29 Feb (incl. the leap days 4 and 8 years before every non-leap century year), the 1582 switch, year ends, the days of years 15/18 whose lunar year runs ahead of the civil year, and seeded moments (a quarter of them "
              "on the 23:00 / midnight / 01:00 edges); 2 genders x 2 schools each: direction, start offset, start date (through Civil.tla stepping), "
              "10 great fortunes with ages/years/pillars, every annual and minor fortune, monthly fortunes of two years. "
              "Distinct non-trivial case = distinct (birth, gender, school) chart." % ("40 000 seeded births" if thorough else "600 seeded births"))
    r.assumptions += ["school-1 start offsets are not judged when the birth or the Jie lies in 23:00-23:59 (the statement does not say which two-hour slot that hour counts as)",
                      "month / hour / year pillars of the birth are the library's (C05)"]
    r.build()
    r.mc("MC_Fortune", "MC_Fortune")
    ch = r.drive("c12births", args={"births": 40000 if thorough else 600}, maxlines=400)
    r.validate("Trace_BaZi", ch)
    r.sample_from(ch[:1])
    r.cov["samples"] = [s[:500] for s in r.cov["samples"]]
    n = 0
    for c in ch:
        for line in open(c, encoding="utf-8"):
            n += 4
    r.cov["charts"] = n
    r.cov["distinct_nontrivial"] = n
    def chart(e, k=0):
        if e["p"] != 0: return None
        c = e["ch"][k]
        return c if c["p"] == 0 else None
    def direction(e):
        c = chart(e, 1)
        if not c: return False
        c["fwd"] = 1 - c["fwd"]
        return True
    def start(e):
        c = chart(e, 3)
        if not c: return False
        c["st"][2] = (c["st"][2] + 1) % 30
        return True
    def solar(e):
        c = chart(e, 0)
        if not c: return False
        c["ss"][5] = (c["ss"][5] + 1) % 60
        return True
    def dayun(e):
        c = chart(e, 2)
        if not c: return False
        c["dy"][3]["v"][5] = (c["dy"][3]["v"][5] + 1) % 60
        return True
    def liunian(e):
        c = chart(e, 0)
        if not c: return False
        c["dy"][2]["ln"][4][3] = (c["dy"][2]["ln"][4][3] + 1) % 60
        return True
    def xiaoyun(e):
        c = chart(e, 1)
        if not c: return False
        c["dy"][1]["xy"][0][3] = (c["dy"][1]["xy"][0][3] + 2) % 60
        return True
    def liuyue(e):
        c = chart(e, 0)
        if not c or "ly" not in c["dy"][1]: return False
        c["dy"][1]["ly"][5][2] = (c["dy"][1]["ly"][5][2] + 10) % 60
        return True
    def span(e):
        c = chart(e, 3)
        if not c: return False
        c["dy"][4]["v"][2] += 1
        return True
    r.negctl("Trace_BaZi", ch[0], {"C12Birth": [(direction, "C12.direction"), (start, "C12.start."), (solar, "C12.start.solar"), (dayun, "C12.daYun.pillar"),
                                                 (liunian, "C12.liuNian"), (xiaoyun, "C12.xiaoYun"), (liuyue, "C12.liuYue"), (span, "C12.daYun.")]}, per_kind=1)


# --------------------------------------------------------------- C11 / C18
def _write_tables(r, equiv_names, fd_name):
    import extract_exprs
    ef = os.path.join(r.dir, "exprs.txt")
    ff = os.path.join(r.dir, "fd.txt")
    ex = extract_exprs.exprs_for(equiv_names) if equiv_names else []
    write_lines(ef, ex)
    fd = extract_exprs.fd_lines(fd_name)
    write_lines(ff, fd)
    if (equiv_names and len(ex) < 100) or len(fd) < 30:
        raise Infra("extraction of the accessor tables from Almanac.tla failed (%d expressions, %d FD rows)" % (len(ex), len(fd)))
    return ef, ff, ex, fd


@plan("C11", "exploration")
def c11(r):
    thorough = r.tier == "thorough"
    r.rule = ("Almanac.tla lists, by hand, %s pairs of accessor expressions that must agree (hour object vs the lunar date's hour accessors; "
              "lunar-year object vs New-Year-based year accessors; deprecated aliases; default vs documented school; eight-character pillars vs the "
              "lunar date's exact pillars selected by the day-boundary convention; deprecated arrays) and 37 eight-character attributes with their "
              "defining pillars. The driver evaluates exactly those expressions on %s moments x 2 conventions (boundary heavy: Jie instants +-1 s, "
              "both solstice days, 20-31 December, 23:00-23:59, 00:00-00:59, 12 boundary years) and TLC compares each pair; observations are grouped "
              "by (attribute, defining inputs) over the run and TLC requires one value per group. Extension (EXT.bazi.*, reported, never a verdict): "
              "BaZiRules.tla states what those attributes are - elements, ten gods, hidden stems, twelve life stages, xun and empty branches, nayin, "
              "conception pillars - from the five-element relations; TLC model-checks the laws of the rules (MC_BaZiRules, 1 200 states) and "
              "recomputes every attribute of every chart seen over the full grid (100 stem pairs, 120 stem-branch pairs, 60 pillars). "
              "Distinct non-trivial case = distinct (moment, convention)." )
    r.build()
    ef, ff, ex, fd = _write_tables(r, ["Equiv", "SectEquiv", "BaZiArrays"], "FD11")
    r.rule = r.rule % (len(ex) // 2, "40 000" if thorough else "4 000")
    ch = r.drive("c11moments", shards=4, args={"exprs": ef, "fd": ff, "moments": 40000 if thorough else 4000, "prop": "C11"}, maxlines=600)
    r.validate("Trace_Routes", ch)
    # extension: what the derived attributes ARE (BaZiRules.tla, from the five-element relations), model-checked for
    # its own laws and applied to every attribute of every chart seen; EXT.* names, never a verdict
    r.mc("MC_BaZiRules", "MC_BaZiRules")
    ch_b = r.drive("c11bazi", shards=1, args={"moments": 20000 if thorough else 3000}, maxlines=0)
    r.validate("Trace_Routes", ch_b)
    def bz_tg(e):
        e["tg"][7][2] = "正官" if e["tg"][7][2] != "正官" else "七杀"
        return True
    def bz_ds(e):
        e["ds"][11][2] = "墓" if e["ds"][11][2] != "墓" else "绝"
        return True
    def bz_hg(e):
        e["hg"][4][1] = list(reversed(e["hg"][4][1]))
        return True
    r.negctl("Trace_Routes", ch_b[0], {"BzRules": [(bz_tg, "EXT.bazi.ten-god-of-stem")]}, per_kind=1)
    r.negctl("Trace_Routes", ch_b[0], {"BzRules": [(bz_ds, "EXT.bazi.life-stage")]}, per_kind=1)
    r.negctl("Trace_Routes", ch_b[0], {"BzRules": [(bz_hg, "EXT.bazi.hidden-stems")]}, per_kind=1)
    r.sample_from(ch[:1])
    r.cov["samples"] = [s[:500] for s in r.cov["samples"]]
    n = g = 0
    for c in ch:
        for line in open(c, encoding="utf-8"):
            e = json.loads(line)
            if e["ev"] == "C11Moment": n += 1
            else: g += len(e["g"])
    r.cov["moments_x_conventions"] = n
    r.cov["fd_groups"] = g
    r.cov["pairs_compared_per_moment"] = len(ex) // 2
    r.cov["distinct_nontrivial"] = n
    r.cov["mc_runs"].append({"note": "no state space: the specification contributes the pairing / dependence tables and the verdict"})
    def mv(expr):
        def f(e):
            if e["p"] != 0 or expr not in e["v"]: return False
            e["v"][expr] = e["v"][expr] + "x"
            return True
        return f
    def fdm(e):
        e["g"][0]["vals"] = e["g"][0]["vals"] + ["zz"]
        return True
    r.negctl("Trace_Routes", ch[0], {"C11Moment": [(mv("LunarTime.GetNineStar"), "C11.equiv"), (mv("Lunar.GetSha"), "C11.equiv"), (mv("EightChar.GetDayXun"), "C11.equiv.by-day"),
                                                    (mv("Lunar.GetBaZi"), "C11.equiv.deprecated-array"), (mv("LunarYear.GetNineStar"), "C11.equiv")]})
    r.negctl("Trace_Routes", ch[-1], {"FDGroups": [(fdm, "C11.functional-dependence")]}, per_kind=1)


@plan("C18", "exploration")
def c18(r):
    thorough = r.tier == "thorough"
    r.rule = ("Almanac.tla lists, by hand, %d almanac attributes of the lunar date and the hour object with their defining inputs (day / hour stem, "
              "branch, stem-branch pair, month and day branches, month and day pillars, lunar month and day pillar, lunar month and day, mansion). "
              "The driver evaluates them on %s moments x 2 conventions, groups the observations by (attribute, defining inputs) and TLC requires one "
              "value per group (%s groups); the spirit-list lookups are additionally called for every ordered pair of (lunar month, day pillar) keys and the suitable/avoid lookups after sampled predecessor lookups, grouped the same way (a lookup must not depend on the one made before it). The four classical laws are evaluated by TLC on every day of %s: the 28 "
              "mansions advance one per day in their fixed order in step with the weekday, the duty god is 'establish' when day and month branches "
              "coincide, the clash branch is six places away, the two pillars of each nayin pair share one element. Distinct non-trivial case = distinct group or day.")
    r.assumptions += ["a table that is consistently wrong for a key is still a function of that key: functional dependence cannot see it (only the four laws pin values)"]
    r.build()
    ef, ff, ex, fd = _write_tables(r, None, "FD18")
    ch = r.drive("c11moments", shards=4, args={"fd": ff, "moments": 40000 if thorough else 5000, "prop": "C18", "nomoments": 1}, maxlines=600, label="c18fd")
    r.validate("Trace_Routes", ch)
    chl = r.drive("c18laws", args={"years": 60}, maxlines=30)
    r.validate("Trace_Routes", chl)
    # history independence of the table lookups: every ordered pair of (month, day pillar) keys, sampled predecessors for the lists
    chp = r.drive("c18pairs", args={"pred": 200 if thorough else 30}, maxlines=0)
    r.validate("Trace_Routes", chp)
    ch = ch + chp
    r.sample_from(ch[:1] + chl[-1:])
    r.cov["samples"] = [s[:500] for s in r.cov["samples"]]
    g = multi = days = 0
    for c in ch:
        for line in open(c, encoding="utf-8"):
            e = json.loads(line)
            if e["ev"] == "FDGroups":
                g += len(e["g"])
    for c in chl:
        for line in open(c, encoding="utf-8"):
            e = json.loads(line)
            days += len(e.get("rows", []))
    r.rule = r.rule % (len(fd), "40 000" if thorough else "5 000", g, "every civil year" if thorough else "60 seeded + 7 boundary years")
    r.cov["fd_groups"] = g
    r.cov["days"] = days
    r.cov["distinct_nontrivial"] = g + days
    r.cov["mc_runs"].append({"note": "no state space: the specification contributes the dependence table, the laws and the verdict"})
    def fdm(e):
        e["g"][0]["vals"] = e["g"][0]["vals"] + ["zz"]
        return True
    r.negctl("Trace_Routes", ch[-1], {"FDGroups": [(fdm, "C18.functional-dependence")]}, per_kind=1)
    def xiu(e):
        e["rows"][10][3] = e["rows"][9][3]
        return True
    def zx(e):
        e["rows"][20][7] = "建" if e["rows"][20][7] != "建" else "除"
        return True
    def chong(e):
        e["rows"][30][8] = "子" if e["rows"][30][8] != "子" else "丑"
        return True
    def ny(e):
        e["t"][4][2] = e["t"][6][2]
        return True
    r.negctl("Trace_Routes", chl[1:4], {"C18Laws": [(xiu, "C18.xiu."), (zx, "C18.zhiXing"), (chong, "C18.chong")]}, per_kind=1)
    r.negctl("Trace_Routes", chl[0], {"C18NaYin": [(ny, "C18.naYin.pairs-share")]}, per_kind=1)


# --------------------------------------------------------------------- C02
@plan("C02", "exploration")
def c02(r):
    r.rule = ("TLC model-checks MC_LeapRule (the no-major-term rule of LunarTable.tla on synthetic years: solstice on every day of the first "
              "month x 10 month-length patterns x 9 term-spacing patterns: months 11,12,1..11 in order, a leap month exactly when 13 months lie "
              "between the solstice months, agreement with the code-shaped search). One frame per lunar year 1645..3000 (all 1356 years in both "
              "tiers): the 15-month table, the civil days of the 31 terms, and for every month start the library's own moon-sun elongation at 00:00 "
              "of the first day and of the next day (verif hook) and an independent Meeus new-moon instant with Espenak-Meeus Delta-T. TLC checks: "
              "elongation <= 0 <= elongation' (the new moon lies inside the first day, 1645..3000), independent instant on the same civil day unless "
              "within 300 s + Delta-T disagreement of midnight (1929..3000), solstice in month 11 and leap placement / numbering by the rule (sui "
              "starting 1929..2999; years with a term or new moon within a minute of midnight are not judged). ICU's Chinese calendar is dumped for every civil "
              "day 1900..2100 (73 414 days) and compared with Solar.GetLunar. Distinct non-trivial case = distinct lunar month.")
    r.assumptions += ["'true new moon' is decided relative to the library's own series through the verif export (exact) and to harness/ephem's Meeus ch.49 series (a few seconds to minutes); ICU 72's Chinese calendar (Asia/Shanghai) is compared day by day for 1900..2100, a disagreement being accepted only next to a new moon within 0.13 degree (15 min) of midnight or, for leap labelling, in a year with a term within 10 min of midnight",
                      "events within about a minute of UTC+8 midnight are counted as ambiguous for the leap rule, never as failures"]
    r.build()
    r.mc("MC_LeapRule", "MC_LeapRule")
    ch = r.drive("c02years", maxlines=0)
    r.validate("Trace_Lunar", ch)
    # second oracle: ICU's Chinese calendar for every civil day 1900..2100 (built by bin/setup when gcc + libicu are present)
    icudump = os.path.join(os.path.dirname(r.lz), "icudump")
    if not os.path.exists(icudump):
        import subprocess as _sp
        _sp.run(["gcc", "-O1", "-o", icudump, os.path.join(os.path.dirname(os.path.dirname(os.path.abspath(__file__))), "harness", "icu", "icudump.c"), "-licui18n", "-licuuc"],
                stdout=_sp.DEVNULL, stderr=_sp.DEVNULL)
    if os.path.exists(icudump):
        import subprocess as _sp
        tsv = os.path.join(r.dir, "icu.tsv")
        with open(tsv, "w") as fh:
            pr = _sp.run([icudump, "1900", "2100"], stdout=fh, stderr=_sp.PIPE, text=True, timeout=300)
        if pr.returncode != 0 or os.path.getsize(tsv) < 1000000:
            raise Infra("icudump failed: %s" % pr.stderr[-500:])
        chi = r.drive("c02icu", args={"icu": tsv}, maxlines=0)
        r.validate("Trace_Lunar", chi)
        r.cov["icu_days_compared"] = sum(len(json.loads(l)["rows"]) for c in chi for l in open(c, encoding="utf-8"))
        def icumut(e):
            if len(e["rows"]) < 300 or e["y"] in (1917, 1922, 1954, 1955, 1987, 1999, 2012, 2018, 2027, 2030, 2057, 2070): return False
            for row in e["rows"][100:200]:
                row[8] = row[8] % 28 + 1
            return True
        r.negctl("Trace_Lunar", chi[:4], {"C02Icu": [(icumut, "C02.icu.")]}, per_kind=1)
    else:
        r.assumptions.append("ICU oracle skipped in this run: icudump could not be built (no gcc / libicu headers)")
        r.cov["icu_days_compared"] = 0
    r.sample_from(ch[:1])
    r.cov["samples"] = [s[:600] for s in r.cov["samples"]]
    n = 0
    for c in ch:
        for line in open(c, encoding="utf-8"):
            n += len(json.loads(line).get("t", []))
    r.cov["months"] = n
    r.cov["distinct_nontrivial"] = n
    r.cov["exhaustive"] = True
    def modern(e):
        # a year the leap rule is judged in (the specification leaves years with an event within a minute of midnight open)
        return (e["p"] == 0 and e["y"] >= 1935
                and all(e["terms"][2 * k - 1][2] >= 60 for k in range(1, 14))
                and all(abs(x[0]) >= 9000 and abs(x[1]) >= 9000 for x in e["nm"]))
    def shift_first(e):
        if not modern(e): return False
        e["t"][5][3] += 1            # a month that starts one day late
        e["t"][4][2] += 1
        return True
    def elong(e):
        if not modern(e): return False
        e["nm"][6][0] = 1500000
        return True
    def indep(e):
        if not modern(e): return False
        e["nm"][7][2] += 1
        e["nm"][7][3] = 43200
        return True
    def leap_move(e):
        # move the leap month marker to its neighbour
        if not modern(e): return False
        for i, row in enumerate(e["t"][:13]):
            if row[1] < 0 and i + 1 < 13:
                m = -row[1]
                e["t"][i][1] = m % 12 + 1 if False else e["t"][i + 1][1]
                e["t"][i + 1][1] = -e["t"][i + 1][1]
                return True
        return False
    def add_leap(e):
        if not modern(e) or any(row[1] < 0 for row in e["t"][:14]): return False
        e["t"][4][1] = -e["t"][3][1]
        return True
    r.negctl("Trace_Lunar", ch[:6], {"C02Year": [(elong, "C02.newMoon.own-ephemeris"), (indep, "C02.newMoon.independent"),
                                                  (leap_move, "C02.leap."), (add_leap, "C02.leap."), (shift_first, "C02.")]}, per_kind=1)


# --------------------------------------------------------------------- C08
@plan("C08", "exploration")
def c08(r):
    thorough = r.tier == "thorough"
    r.rule = ("Contract.tla holds one hand-reviewed contract per exported zero-argument accessor reflection finds on the objects reachable from a date "
              "(548 accessors on 31 types: Solar, Lunar, EightChar, Yun, DaYun, LiuNian, XiaoYun, LiuYue, LunarTime, NineStar, Tao, Foto, their festivals, "
              "LunarYear, LunarMonth, SolarWeek/Month/Season/HalfYear/Year, JieQi, ShuJiu, Fu, Holiday): integer range, membership in a published vocabulary, "
              "non-empty, list without duplicates / non-empty, object present. The driver walks %s days x 2 times of day (00:00, 01:00, 12:00, 23:00, 23:59:59 "
              "rotating) x both day-boundary conventions, genders, start schools and week starts rotating, calls every accessor by reflection and aggregates "
              "per accessor: panics with witnesses, min/max, the set of distinct values / list elements, list (length, distinct length) pairs, empty strings, "
              "duplicate witnesses. TLC checks each aggregate against its contract; an accessor without a contract is rejected as unclassified. "
              "Distinct non-trivial case = distinct accessor (the aggregation is sound because the claim is universal).")
    r.rule = r.rule % ("every 12th civil day of 1..9998 (about 300 000)" if thorough else "3 000 seeded + 90 boundary")
    r.assumptions += ["this property has no transitions: the TLA+ contributes the contract table and the verdict, the exploration is the driver's",
                      "value sets are capped at 400 distinct values per accessor (overflow is itself reported for vocabulary contracts)"]
    r.build()
    ch = r.drive("c08accessors", args={"days": 300000 if thorough else 3000}, maxlines=0)
    r.validate("Trace_Contract", ch)
    r.sample_from(ch[:1])
    r.cov["samples"] = [s[:400] for s in r.cov["samples"]]
    accs = set()
    calls = 0
    for c in ch:
        for line in open(c, encoding="utf-8"):
            e = json.loads(line)
            accs.add(e["acc"])
            calls += e["calls"]
    r.cov["accessors"] = len(accs)
    r.cov["accessor_calls"] = calls
    r.cov["distinct_nontrivial"] = len(accs)
    r.cov["mc_runs"].append({"note": "no state space (see assumptions)"})
    src = open(os.path.join(r.specdir, "Contract.tla"), encoding="utf-8").read()
    known = set(re.findall(r'^  "([A-Za-z]+\\.[A-Za-z0-9]+)",?$', src, re.M))
    missing = known - accs
    if len(missing) > 25:
        raise Infra("vacuity: %d accessors of Contract.tla were never exercised: %s" % (len(missing), sorted(missing)[:10]))
    r.cov["contract_entries_not_exercised"] = sorted(missing)
    def by(acc, fn):
        def f(e):
            if e["acc"] != acc: return False
            fn(e)
            return True
        return f
    r.negctl("Trace_Contract", ch[0], {"C08Acc": [
        (by("Lunar.GetDayGanIndex", lambda e: e.__setitem__("max", 10)), "C08.index-in-range"),
        (by("Lunar.GetDayGan", lambda e: e["vals"].append("子")), "C08.name-from-vocabulary"),
        (by("ShuJiu.GetName", lambda e: e["vals"].append("十九")), "C08.name-from-vocabulary"),
        (by("Lunar.GetXiu", lambda e: e.__setitem__("panics", 1)), "C08.total"),
        (by("Lunar.GetDayYi", lambda e: e["dup"].append("x,x")), "C08.list-no-duplicates"),
        (by("Lunar.GetPengZuGan", lambda e: e.__setitem__("empties", 2)), "C08.non-empty"),
        (by("Solar.GetXingZuo", lambda e: e.__setitem__("acc", "Solar.GetNewThing")), "C08.accessor.unclassified")]}, per_kind=1)
