"""Per-property plans: which models are checked, which drivers run, which
trace specification judges them, which fields the negative control corrupts."""
import json
import os
import re

from vlib import Infra, log, NCPU

PLANS = {}


def plan(pid, level):
    def deco(fn):
        PLANS[pid] = {"fn": fn, "level": level}
        return fn
    return deco


def write_lines(path, lines):
    with open(path, "w", encoding="utf-8") as f:
        for x in lines:
            f.write(x + "\n")


def edges_to_tsv(edges):
    """TLC tuple text  1582, 10, 4, 0, "NextDay", -31  ->  '1582 10 4 0 NextDay -31'"""
    out = []
    for e in edges:
        parts = [p.strip().strip('"') for p in e.split(",")]
        out.append(" ".join(parts))
    return out


# --------------------------------------------------------------------- C04
def bump(path):
    def f(e):
        cur = e
        for p in path[:-1]:
            if p not in cur if isinstance(cur, dict) else p >= len(cur):
                return False
            cur = cur[p]
        last = path[-1]
        try:
            cur[last] = cur[last] + 1
        except Exception:
            return False
        return True
    return f


@plan("C04", "model_checking")
def c04(r):
    thorough = r.tier == "thorough"
    r.rule = ("TLC model-checks MC_Civil (cursor over boundary days x stepping actions, depth %d) and every edge of "
              "that state graph is executed on real Solar objects; per-day frames (Julian Day at 6+1 seconds of day, "
              "round trip, real-valued JD at 7 millisecond offsets, weekday, Subtract/SubtractMinute/IsBefore/IsAfter "
              "against 3 partners) for %s; seeded random chains of 50 mixed NextDay/NextHour/NextMonth/NextYear/JD "
              "round-trip steps with the cursor carried by the trace specification. A case is distinct and non-trivial "
              "if it is a distinct (date, second-of-day, operation, argument) tuple." %
              (3 if thorough else 2, "every civil day 0001-01-01..9998-12-31" if thorough else "all days of 40 seeded + 20 boundary years"))
    r.assumptions += ["real-valued Julian Days are sampled at millisecond offsets {0,1,250,499,501,750,999} of two seconds per day, not enumerated",
                      "TLC 1.8, CommunityModules Json reader, Go toolchain; the projection code in lz (exercised by the negative controls)"]
    r.build()
    r.mc("MC_Civil", "MC_Civil_d3" if thorough else "MC_Civil")
    edges = r.export_edges("MC_Civil", "MBT_Civil" if not thorough else "MBT_Civil")
    tsv = os.path.join(r.dir, "edges.tsv")
    write_lines(tsv, edges_to_tsv(edges))
    r.cov["replayed_edges"] = len(edges)
    ch_e = r.drive("c04edges", args={"edges": tsv}, maxlines=40000)
    r.validate("Trace_Civil", ch_e)
    ch_d = r.drive("c04days", args={"years": 40, "full": 8 if thorough else 1}, maxlines=15000 if not thorough else 60000)
    r.validate("Trace_Civil", ch_d)
    ch_c = r.drive("c04chains", args={"chains": 200000 if thorough else 3000, "steps": 50}, maxlines=50000)
    r.validate("Trace_Civil", ch_c)
    r.sample_from([ch_e[0], ch_d[0], ch_c[0]])
    # distinct cases: per day frame count its observations; per step one
    def key(e):
        ev = e.get("ev")
        if ev == "C04Day":
            return ("d", e["y"], e["m"], e["d"])
        if ev == "C04Edge":
            return ("e", tuple(e["from"]), e["op"], e["n"])
        if ev == "C04Step":
            return ("s", tuple(e["res"]), e["op"], e["n"])
        return None
    r.count_distinct(ch_e + ch_d[:4] + ch_c[:4], key)
    r.negctl("Trace_Civil", ch_d[0], {"C04Day": [
        (lambda e: e.get("p") == 0 and bump(["wk"])(e), "C04.weekday"),
        (lambda e: e.get("p") == 0 and bump(["jd", 0, 1])(e), "C04.jd.value"),
        (lambda e: e.get("p") == 0 and bump(["rt", 1, 4])(e), "C04.jd.roundtrip"),
        (lambda e: e.get("p") == 0 and "fj" in e and bump(["fj", 8, 9])(e), "C04.fromjd"),
        (lambda e: e.get("p") == 0 and bump(["pa", 0, 8])(e), "C04.subtract"),
        (lambda e: e.get("p") == 0 and e["pa"][0][10] == 1 and bump(["pa", 0, 9])(e), "C04.subtractMinute"),
    ]})
    r.negctl("Trace_Civil", ch_c[0], {"C04Step": [
        (lambda e: e["op"] == "NextDay" and bump(["res", 2])(e), "C04.chain.NextDay"),
        (lambda e: e["op"] == "NextMonth" and bump(["res", 1])(e), "C04.chain.NextMonth"),
        (lambda e: e["op"] == "NextHour" and bump(["res", 3])(e), "C04.chain.NextHour"),
    ]})
    r.negctl("Trace_Civil", ch_e[0], {"C04Edge": [
        (lambda e: e["op"] == "NextYear" and bump(["res", 0])(e), "C04.edge.NextYear"),
    ]})
