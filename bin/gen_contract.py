#!/usr/bin/env python3
"""Development tool: drafts spec/Contract.tla from one observation run (a08 ndjson) plus the naming rules below.
The output is reviewed by hand and committed; the checks never regenerate it."""
import json, sys, re

SETS = {
 "Gan": list("甲乙丙丁戊己庚辛壬癸"),
 "Zhi": list("子丑寅卯辰巳午未申酉戌亥"),
 "ShengXiao": list("鼠牛虎兔龙蛇马羊猴鸡狗猪"),
 "WeekName": list("日一二三四五六"),
 "XingZuo": ["白羊","金牛","双子","巨蟹","狮子","处女","天秤","天蝎","射手","摩羯","水瓶","双鱼"],
 "Xiu28": list("角亢氐房心尾箕斗牛女虚危室壁奎娄胃昴毕觜参井鬼柳星张翼轸"),
 "ZhiXing12": list("建除满平定执破危成收开闭"),
 "TianShen12": ["青龙","明堂","天刑","朱雀","金匮","天德","白虎","玉堂","天牢","玄武","司命","勾陈"],
 "TianShenType": ["黄道","黑道"],
 "Luck": ["吉","凶"],
 "Position9": list("坎坤震巽中乾兑艮离"),
 "WuXing5": list("金木水火土"),
 "Zheng7": list("日月火水木金土"),
 "Gong5": list("东南西北中"),
 "Shou4": ["青龙","朱雀","白虎","玄武"],
 "LiuYao6": ["先胜","友引","先负","佛灭","大安","赤口"],
 "Season12": [a+b for a in "孟仲季" for b in "春夏秋冬"],
 "MonthChinese": ["正","二","三","四","五","六","七","八","九","十","冬","腊"] + ["闰"+x for x in ["正","二","三","四","五","六","七","八","九","十","冬","腊"]],
 "DayChinese": ["初一","初二","初三","初四","初五","初六","初七","初八","初九","初十","十一","十二","十三","十四","十五","十六","十七","十八","十九","二十","廿一","廿二","廿三","廿四","廿五","廿六","廿七","廿八","廿九","三十"],
 "ShiShen": ["比肩","劫财","食神","伤官","偏财","正财","七杀","正官","偏印","正印","日主"],
 "ChangSheng12": ["长生","沐浴","冠带","临官","帝旺","衰","病","死","墓","绝","胎","养"],
 "Xun6": ["甲子","甲戌","甲申","甲午","甲辰","甲寅"],
 "XunKong6": ["戌亥","申酉","午未","辰巳","寅卯","子丑"],
 "ShuJiuName": [x+"九" for x in "一二三四五六七八九"],
 "FuName": ["初伏","中伏","末伏"],
 "JieQi24": ["冬至","小寒","大寒","立春","雨水","惊蛰","春分","清明","谷雨","立夏","小满","芒种","夏至","小暑","大暑","立秋","处暑","白露","秋分","寒露","霜降","立冬","小雪","大雪"],
 "StarNumber": list("一二三四五六七八九"),
 "StarColor": list("白黑碧绿黄赤紫"),
 "YinYang": ["阳","阴"],
 "QiMenLuck": ["大凶","小凶","小吉","大吉"],
 "TaiYiType": ["吉神","凶神","安神"],
 "Yuan3": ["上元","中元","下元"],
 "Yun9": [x+"运" for x in "一二三四五六七八九"],
}
SETS["GanZhi60"] = [SETS["Gan"][i % 10] + SETS["Zhi"][i % 12] for i in range(60)]
SETS["WuXingPair"] = [a+b for a in SETS["WuXing5"] for b in SETS["WuXing5"]]
ORDER = ["Gan","Zhi","ShengXiao","GanZhi60","Xun6","XunKong6","XingZuo","Xiu28","ZhiXing12","TianShen12","TianShenType","Luck","Position9","WuXing5","WuXingPair","Zheng7","Gong5","Shou4",
         "LiuYao6","Season12","MonthChinese","DayChinese","ShiShen","ChangSheng12","ShuJiuName","FuName","JieQi24","StarNumber","StarColor","YinYang","QiMenLuck","TaiYiType","Yuan3","Yun9","WeekName"]

INT_RULES = [  # (regex on Type.Method, lo, hi)
 (r"GanIndex", 0, 9), (r"ZhiIndex", 0, 11), (r"^NineStar\.GetIndex$", 0, 8),
 (r"^SolarWeek\.GetIndex$", 1, 6), (r"^SolarWeek\.GetIndexInYear$", 1, 54), (r"^SolarSeason\.GetIndex$", 1, 4), (r"^SolarHalfYear\.GetIndex$", 1, 2),
 (r"^LunarMonth\.GetIndex$", 1, 15), (r"^ShuJiu\.GetIndex$", 1, 9), (r"^Fu\.GetIndex$", 1, 20),
 (r"^(DaYun)\.GetIndex$", 0, 9), (r"^(LiuNian|XiaoYun)\.GetIndex$", 0, 10), (r"^LiuYue\.GetIndex$", 0, 11),
 (r"\.GetMonth$", -12, 12), (r"^SolarWeek\.GetDay$|^Solar\.GetDay$", 1, 31), (r"\.GetDay$", 1, 30), (r"\.GetHour$", 0, 23), (r"\.GetMinute$|\.GetSecond$", 0, 59),
 (r"\.GetWeek$", 0, 6), (r"^LunarMonth\.GetDayCount$", 28, 30), (r"^LunarYear\.GetDayCount$", 325, 385), (r"\.GetLeapMonth$", 0, 12),
 (r"\.GetSect$", 1, 2), (r"\.GetGender$", 0, 1), (r"\.GetStartMonth$", 0, 11), (r"\.GetStartDay$", 0, 29), (r"\.GetStartHour$", 0, 23),
 (r"^Yun\.GetStartYear$", 0, 11), (r"\.GetSalaryRate$", 1, 3), (r"Age$", 1, 200),
]

def main(path):
    accs = [json.loads(l) for l in open(path, encoding="utf-8")]
    lines = []
    for e in sorted(accs, key=lambda x: x["acc"]):
        a, kind, vals = e["acc"], e["kind"], e["vals"]
        c = None
        if kind == "int":
            for rx, lo, hi in INT_RULES:
                if re.search(rx, a):
                    c = '[k |-> "int", lo |-> %d, hi |-> %d]' % (lo, hi); break
            if c is None:
                c = '[k |-> "int", lo |-> -10000, hi |-> 20000]'
        elif kind == "bool":
            c = '[k |-> "bool"]'
        elif kind == "float":
            c = '[k |-> "any"]'
        elif kind in ("obj",):
            c = '[k |-> "obj"]'
        elif kind == "ptr":
            c = '[k |-> "optobj"]'
        elif kind == "map":
            c = '[k |-> "any"]'
        elif kind == "string":
            nonempty = "" not in vals
            chosen = None
            if not e["over"] and vals:
                for s in ORDER:
                    if set(v for v in vals if v != "").issubset(set(SETS[s])):
                        chosen = s; break
            if chosen:
                c = '[k |-> "in", set |-> "%s", opt |-> %s]' % (chosen, "FALSE" if nonempty else "TRUE")
            else:
                c = '[k |-> "str", nonempty |-> %s]' % ("TRUE" if nonempty else "FALSE")
        elif kind == "list":
            elems = set(vals)
            chosen = None
            if not e["over"] and elems:
                for s in ORDER:
                    if elems.issubset(set(SETS[s])):
                        chosen = s; break
            nodup = not e["dup"]
            isarr = a.startswith("Lunar.GetBaZi") and "ShiShen" not in a.replace("GetBaZiShiShenGan","").replace("GetBaZiShiShenZhi","")
            fixed = all(l[0] == e["lists"][0][0] for l in e["lists"])
            c = '[k |-> "list", set |-> "%s", nodup |-> %s, nonempty |-> %s]' % (chosen or "", "TRUE" if nodup else "FALSE", "TRUE" if all(l[0] > 0 for l in e["lists"]) else "FALSE")
        else:
            c = '[k |-> "any"]'
        lines.append('  a = "%s" -> %s' % (a, c))
    sets = []
    for s in ORDER:
        sets.append('  n = "%s" -> { %s }' % (s, ", ".join('"%s"' % v for v in SETS[s])))
    out = []
    out.append("------------------------------ MODULE Contract ------------------------------")
    out.append("(***************************************************************************)")
    out.append("(* C08: what every exported zero-argument accessor owes its caller.        *)")
    out.append("(* One contract per accessor reachable from a civil or lunar date.  The     *)")
    out.append("(* table was drafted from the naming conventions of the API (index-like    *)")
    out.append("(* results stay inside their tables, names come from the published        *)")
    out.append("(* vocabularies, documented-present strings are non-empty, lists have no    *)")
    out.append("(* duplicates) and reviewed by hand; an accessor that reflection finds and  *)")
    out.append("(* this table does not list is rejected as unclassified.                   *)")
    out.append("(***************************************************************************)")
    out.append("EXTENDS Integers, Sequences, FiniteSets")
    out.append("")
    out.append("VocabSet(n) == CASE")
    out.append(" []\n".join(sets))
    out.append("  [] OTHER -> {}")
    out.append("")
    out.append("Known == {")
    out.append(",\n".join('  "%s"' % e["acc"] for e in sorted(accs, key=lambda x: x["acc"])))
    out.append("}")
    out.append("")
    out.append("ContractOf(a) == CASE")
    out.append(" []\n".join(lines))
    out.append("  [] OTHER -> [k |-> \"unclassified\"]")
    out.append("=============================================================================")
    print("\n".join(out))

if __name__ == "__main__":
    main(sys.argv[1])
