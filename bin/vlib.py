#!/usr/bin/env python3
"""vlib: orchestration library for the lunar-go TLA+ conformance checks.

Nothing here decides a property.  It builds the Go harness from /repo's
current working tree, runs TLC (model checking, behaviour export, trace
validation), parses TLC's REJECT / DONE lines, matches them against
known_findings.json, writes evidence and maps the outcome to an exit code:
  0  property held on everything explored (known findings are announced)
  1  VIOLATION lines printed (a REJECT that known_findings.json does not list)
  2  infrastructure failure (TLC crash, timeout, dead driver, vacuous check)
"""
import concurrent.futures as cf
import glob
import json
import os
import random
import re
import shutil
import subprocess
import sys
import time

VERIF = os.path.dirname(os.path.dirname(os.path.abspath(__file__)))
REPO = os.environ.get("VERIF_REPO", "/repo")
SPEC = os.path.join(VERIF, "spec")
# bin/seedtest runs checks against a patched scratch worktree: everything such a run writes (work files, replay
# files, evidence) goes under VERIF_SCRATCH, so that it never collides with - or overwrites the evidence of - a
# registered run on /repo
OUTBASE = os.environ.get("VERIF_SCRATCH") or VERIF
WORK = os.path.join(OUTBASE, ".work")
TLAJAR = "/opt/veriftools/tla/tla2tools.jar:/opt/veriftools/tla/CommunityModules-deps.jar"
NCPU = os.cpu_count() or 8

GOENV = dict(os.environ, GOFLAGS="-mod=mod", GOPROXY="off", GOSUMDB="off", GOTOOLCHAIN="local",
             CGO_ENABLED=os.environ.get("CGO_ENABLED", "1"))


class Infra(Exception):
    pass


def log(*a):
    print("[vcheck]", *a, flush=True)


def sh(cmd, cwd=None, env=None, timeout=None, check=True, capture=True):
    p = subprocess.run(cmd, cwd=cwd, env=env, timeout=timeout, shell=isinstance(cmd, str),
                       stdout=subprocess.PIPE if capture else None,
                       stderr=subprocess.STDOUT if capture else None, text=True, errors="replace")
    if check and p.returncode != 0:
        raise Infra("command failed (%d): %s\n%s" % (p.returncode, cmd, (p.stdout or "")[-3000:]))
    return p


# zones whose clocks jump at local midnight (Havana, Santiago, Sao_Paulo), at 02:00 (New_York, London), by half an hour
# (Lord_Howe), that skipped a whole day (Apia, 2011-12-30), plus UTC and Beijing
DRIVER_ZONES = ["UTC", "America/Havana", "America/New_York", "Pacific/Apia", "America/Santiago", "Asia/Shanghai", "America/Sao_Paulo",
                "Europe/London", "Australia/Lord_Howe"]
DOMAIN_ERR_RE = re.compile(r"Attempted to (access index|apply function|select field|access field|apply tuple)|is not in the domain|which is out of bounds|"
                           r"Attempted to compute the value of an expression of form CHOOSE")
HARD_ERR_RE = re.compile(r"OutOfMemoryError|StackOverflowError|java\.io\.|Cannot find source file|Parsing or semantic analysis failed")


def _ev_of(line):
    try:
        return json.loads(line).get("ev")
    except Exception:
        return None


REJECT_RE = re.compile(r'^<<"REJECT", "([^"]+)", (\d+), (.*)>>$')
DONE_RE = re.compile(r'^<<"DONE", (\d+), (\d+), (\d+)>>$')
STATES_RE = re.compile(r'^(\d+) states generated, (\d+) distinct states found')


def tlc_records(out, markers=("REJECT", "DONE", "EDGE")):
    """TLC pretty-prints long values over several lines; re-join every printed
    tuple that starts with one of our markers."""
    recs = []
    buf = None
    for line in out.splitlines():
        if buf is None:
            if any(line.startswith('<<"%s"' % m) or line.startswith('<< "%s"' % m) for m in markers):
                buf = line.strip()
            else:
                continue
        else:
            buf += " " + line.strip()
        if buf.count("<<") <= buf.count(">>"):
            recs.append(re.sub(r"\s+", " ", buf).replace("<< ", "<<").replace(" >>", ">>"))
            buf = None
    return recs


def library_runtime_abort(stderr):
    """'fatal error: concurrent map ...' whose innermost non-runtime frame is in the library: returns a one-line description, else ''."""
    m = re.search(r"fatal error: (concurrent map[^\n]*)\n", stderr)
    if not m:
        return ""
    frames = re.findall(r"^([A-Za-z0-9_./\-]+(?:\.\(\*?[A-Za-z0-9_]+\))?\.[A-Za-z0-9_.]+)\(", stderr[m.end():], re.M)
    for f in frames:
        if f.startswith(("runtime.", "internal/runtime", "internal/")):
            continue
        if f.startswith("github.com/6tail/lunar-go/"):
            return "%s in %s" % (m.group(1), f)
        return ""
    return ""


class Run:
    def __init__(self, pid, tier, seed, level, keep=False):
        self.pid = pid
        self.tier = tier
        self.seed = seed
        self.level = level
        self.keep = keep
        self.t0 = time.time()
        self.dir = os.path.join(WORK, pid)
        shutil.rmtree(self.dir, ignore_errors=True)
        os.makedirs(self.dir)
        self.specdir = os.path.join(self.dir, "spec")
        shutil.copytree(SPEC, self.specdir)
        self.rejects = []          # dicts: name,line,key,chunk,driver
        self.cov = {"evaluations": 0, "states": 0, "transitions": 0, "distinct_states": 0,
                    "traces_validated_against_impl": 0, "trace_events": 0, "replayed_edges": 0,
                    "negative_controls": 0, "mc_runs": [], "drivers": [], "samples": [],
                    "distinct_nontrivial": 0}
        self.assumptions = []
        self.rule = ""
        self.lz = None
        self.drivers = {}          # chunk path -> driver invocation
        self.nontrivial = set()

    # ---------------------------------------------------------------- build
    def build(self, race=False):
        bindir = os.path.join(self.dir, "bin")   # per property: checks may run side by side
        os.makedirs(bindir, exist_ok=True)
        out = os.path.join(bindir, "lz-race" if race else "lz")
        hdir = os.path.join(VERIF, "harness")
        gosum = os.path.join(REPO, "go.sum")
        if os.path.exists(gosum):
            shutil.copy(gosum, os.path.join(hdir, "go.sum"))
        cmd = ["go", "build", "-tags", "verif"] + (["-race"] if race else [])
        env = dict(GOENV)
        if REPO != "/repo":
            # development only (bin/seedtest): build against another checkout without touching harness/go.mod
            mf = os.path.join(bindir, "alt.mod")
            txt = open(os.path.join(hdir, "go.mod"), encoding="utf-8").read().replace("=> /repo", "=> " + REPO)
            open(mf, "w", encoding="utf-8").write(txt)
            if os.path.exists(gosum):
                shutil.copy(gosum, os.path.join(bindir, "alt.sum"))
            cmd += ["-modfile", mf]
        cmd += ["-o", out, "./cmd/lz"]
        p = sh(cmd, cwd=hdir, env=env, timeout=600, check=False)
        if p.returncode != 0:
            raise Infra("harness does not build against %s:\n%s" % (REPO, p.stdout[-4000:]))
        if race:
            self.lz_race = out
        else:
            self.lz = out
        return out

    # ------------------------------------------------------------------ TLC
    def _java(self, heap="4g", light=False):
        # light: many short single-worker JVMs side by side (trace validation) - C1 only, serial GC
        gc = ["-XX:+UseSerialGC", "-XX:TieredStopAtLevel=1"] if light else ["-XX:+UseParallelGC"]
        return ["java"] + gc + ["-Xmx" + heap, "-Xss256m", "-Dfile.encoding=UTF-8", "-cp", TLAJAR, "tlc2.TLC"]

    def tlc(self, module, cfg, workers=1, env=None, timeout=900, heap="4g", extra=None, tag=""):
        md = os.path.join(self.dir, "md_%s_%s_%d" % (module, tag, random.randrange(1 << 30)))
        cmd = self._java(heap, light=(tag == "tv")) + ["-workers", str(workers), "-metadir", md, "-config", cfg + ".cfg",
                                  "-nowarning"] + (extra or []) + [module]
        e = dict(os.environ)
        e.pop("JAVA_TOOL_OPTIONS", None)
        if env:
            e.update(env)
        try:
            p = sh(cmd, cwd=self.specdir, env=e, timeout=timeout, check=False)
        except subprocess.TimeoutExpired:
            raise Infra("TLC timeout: %s %s" % (module, cfg))
        finally:
            shutil.rmtree(md, ignore_errors=True)
        return p.returncode, p.stdout

    def mc(self, module, cfg, workers=NCPU, timeout=1800, heap="12g", expect_ok=True, coverage=False, env=None, nocov=False):
        """Model-check a bounded configuration.  A violated invariant of a pure
        model is an infrastructure failure (the reference model is wrong) unless
        the caller asks for the raw result (models fed with tables from the code)."""
        t = time.time()
        coverage = coverage or (self.tier == "thorough" and not nocov and os.environ.get("VERIF_NO_COVERAGE") is None)
        rc, out = self.tlc(module, cfg, workers=workers, timeout=timeout, heap=heap, env=env,
                           extra=(["-coverage", "1"] if coverage else []), tag="mc")
        m = None
        for line in out.splitlines():
            mm = STATES_RE.match(line)
            if mm:
                m = mm
        ok = "Model checking completed. No error has been found." in out
        gen = int(m.group(1)) if m else 0
        dist = int(m.group(2)) if m else 0
        info = {"module": module, "cfg": cfg, "generated": gen, "distinct": dist, "ok": ok,
                "wall_s": round(time.time() - t, 1)}
        if coverage:
            # TLC's per-action coverage: "<Action line ..., col ... of module M>: distinct:generated"; an action never taken is vacuous
            never = re.findall(r"^<(\w+) line \d+, col \d+ to line \d+, col \d+ of module \w+>: 0:0$", out, re.M)
            info["actions_never_taken"] = sorted(set(never))
        self.cov["mc_runs"].append(info)
        self.cov["states"] += dist
        self.cov["transitions"] += gen
        log("MC %s/%s: %d generated, %d distinct, ok=%s, %.1fs" % (module, cfg, gen, dist, ok, time.time() - t))
        if expect_ok and not ok:
            raise Infra("model check %s/%s did not complete cleanly:\n%s" % (module, cfg, out[-3000:]))
        if expect_ok and dist == 0:
            raise Infra("model check %s/%s explored no states" % (module, cfg))
        return info, out

    # -------------------------------------------------------------- drivers
    def drive(self, cmd, shards=NCPU, args=None, maxlines=20000, race=False, timeout=3600, label=None, env=None):
        if self.lz is None and not race:
            self.build()
        exe = self.lz_race if race else self.lz
        label = label or cmd
        a = ",".join("%s=%s" % kv for kv in (args or {}).items())
        procs = []
        t = time.time()
        for i in range(shards):
            base = os.path.join(self.dir, "%s.s%02d" % (label, i))
            c = [exe, cmd, "-tier", self.tier, "-seed", str(self.seed), "-shard", "%d/%d" % (i, shards),
                 "-out", base, "-maxlines", str(maxlines), "-a", a]
            # no result of the library may depend on the zone the process runs in: the shards of one driver run
            # under different TZ values (zones with daylight-saving gaps, a zone that skipped a day, UTC, Beijing)
            penv = dict(os.environ, TZ=DRIVER_ZONES[i % len(DRIVER_ZONES)])
            penv.update(env or {})
            procs.append((i, base, c, subprocess.Popen(c, stdout=subprocess.PIPE, stderr=subprocess.PIPE, text=True,
                                                       errors="replace", env=penv)))
        chunks = []
        lines = 0
        stderr_all = []
        for i, base, c, p in procs:
            try:
                so, se = p.communicate(timeout=timeout)
            except subprocess.TimeoutExpired:
                p.kill()
                raise Infra("driver timeout: %s" % " ".join(c))
            stderr_all.append(se)
            if p.returncode == 3 and "LZ-LOCK-LEAKED" in (se or "") and self.pid == "C09":
                # real behaviour, and C09's subject: a call panicked and left the library's lock held for ever
                what = [ln for ln in se.splitlines() if "LZ-LOCK-LEAKED" in ln][0][:300]
                self.rejects.append({"name": "C09.lock.left-held-by-a-panicking-call", "line": 0,
                                     "key": "<<%s, %s>>" % (json.dumps(cmd), json.dumps(what, ensure_ascii=False)), "chunk": base})
                log("driver %s shard %d: %s" % (cmd, i, what))
                continue
            if p.returncode == 2 and self.pid == "C09" and library_runtime_abort(se or ""):
                # real behaviour too: the Go runtime stopped the process because library code used a map from several
                # goroutines at once (the innermost non-runtime frame of the aborting goroutine is the library's)
                what = library_runtime_abort(se)
                self.rejects.append({"name": "C09.concurrent.runtime-abort-in-library-code", "line": 0,
                                     "key": "<<%s, %s>>" % (json.dumps(cmd), json.dumps(what, ensure_ascii=False)), "chunk": base})
                log("driver %s shard %d: %s" % (cmd, i, what))
                continue
            if p.returncode != 0 or "LZ-DONE" not in so:
                raise Infra("driver died (%s): %s\n%s" % (p.returncode, " ".join(c), (se or "")[-3000:]))
            m = re.search(r"lines=(\d+)", so)
            lines += int(m.group(1))
            for f in sorted(glob.glob(base + ".*.ndjson")):
                if os.path.getsize(f) > 0:
                    chunks.append(f)
                    self.drivers[f] = {"cmd": cmd, "args": a, "shard": "%d/%d" % (i, shards), "maxlines": maxlines,
                                       "race": race}
        self.cov["drivers"].append({"cmd": cmd, "args": a, "shards": shards, "lines": lines,
                                    "wall_s": round(time.time() - t, 1)})
        log("drive %s: %d lines in %d chunks, %.1fs" % (label, lines, len(chunks), time.time() - t))
        if lines == 0 and not self.unlisted_so_far():
            raise Infra("driver %s produced no events" % cmd)
        self.last_stderr = stderr_all
        return chunks

    # ----------------------------------------------------------- validation
    def _validate_one(self, module, cfg, chunk, timeout, env=None):
        e = {"TRACE": chunk}
        if env:
            e.update(env)
        rc, out = self.tlc(module, cfg, workers=1, env=e, timeout=timeout, tag="tv")
        rej = []
        done = None
        for line in tlc_records(out):
            m = REJECT_RE.match(line)
            if m:
                rej.append({"name": m.group(1), "line": int(m.group(2)), "key": m.group(3), "chunk": chunk})
                continue
            m = DONE_RE.match(line)
            if m:
                done = (int(m.group(1)), int(m.group(2)))
        finished = "Model checking completed. No error has been found." in out
        return chunk, rej, done, finished, out

    def validate(self, module, chunks, cfg=None, timeout=1800, jobs=None, record=True, env=None):
        cfg = cfg or module
        jobs = jobs or min(NCPU, max(1, len(chunks)))
        t = time.time()
        rejects = []
        events = 0
        with cf.ThreadPoolExecutor(max_workers=jobs) as ex:
            futs = [ex.submit(self._validate_one, module, cfg, c, timeout, env) for c in chunks]
            for f in futs:
                chunk, rej, done, finished, out = f.result()
                if not finished or done is None:
                    if rej:
                        # TLC stopped on an observation it could not evaluate (an index out of a table's domain, ...) AFTER
                        # reporting genuine REJECTs on the same trace: those verdicts stand; the rest of the chunk is unexamined
                        log("WARNING: %s stopped early on %s after %d REJECT(s); keeping them" % (module, os.path.basename(chunk), len(rej)))
                        rejects.extend(rej)
                        rejects.append({"name": "%s.trace.evaluation-stopped-early" % self.pid, "line": 0, "key": os.path.basename(chunk), "chunk": chunk})
                        continue
                    dom = DOMAIN_ERR_RE.search(out)
                    if dom and not HARD_ERR_RE.search(out):
                        # The trace specification could not evaluate a recorded observation: a value outside every table /
                        # tuple / function domain the specification knows (e.g. month 0).  The observation is real behaviour
                        # of the code and no action of the specification explains it: the trace is rejected at that line.
                        ls = re.findall(r"/\\ l = (\d+)", out)
                        ln = int(ls[-1]) if ls else 0
                        what = " ".join(out[dom.start():dom.start() + 400].split())[:240]
                        log("%s could not evaluate line %d of %s: %s" % (module, ln, os.path.basename(chunk), what))
                        rejects.append({"name": "%s.observation-outside-specified-domain" % self.pid, "line": ln,
                                        "key": "<<%s, %d, %s>>" % (json.dumps(os.path.basename(chunk)), ln, json.dumps(what)), "chunk": chunk})
                        continue
                    raise Infra("trace validation of %s by %s did not finish:\n%s" % (chunk, module, out[-3000:]))
                if done[0] != done[1]:
                    raise Infra("trace %s not fully consumed by %s: %s of %s lines (an event no action accepts?)\n%s"
                                % (chunk, module, done[0], done[1], out[-1500:]))
                events += done[1]
                rejects.extend(rej)
        if record:
            self.rejects.extend(rejects)
            self.cov["trace_events"] += events
            self.cov["traces_validated_against_impl"] += len(chunks)
        log("validate %s: %d chunks, %d events, %d REJECT, %.1fs" % (module, len(chunks), events, len(rejects),
                                                                     time.time() - t))
        return rejects, events

    # ------------------------------------------------------ negative control
    def negctl(self, module, chunk, mutators, cfg=None, per_kind=3, env=None):
        """Corrupt recorded fields and require TLC to reject each corrupted
        line with the expected check.  mutators: {event: [(fn, expected_prefix)]};
        fn mutates the decoded event in place and returns False if not applicable."""
        if isinstance(chunk, (list, tuple)):
            # self-contained frames: pool the lines of several chunks
            lines = []
            for c in chunk:
                lines += open(c, encoding="utf-8").read().splitlines()
            chunk = chunk[0]
            pooled = True
        else:
            lines = open(chunk, encoding="utf-8").read().splitlines()
            pooled = False
        out_lines = []
        expect = []          # (lineno, prefix)
        used = {}
        rng = random.Random(self.seed)
        order = list(range(len(lines)))
        rng.shuffle(order)
        chosen = {}
        for idx in order:
            try:
                e = json.loads(lines[idx])
            except Exception:
                continue
            ev = e.get("ev")
            if ev not in mutators:
                continue
            for k, (fn, prefix) in enumerate(mutators[ev]):
                if used.get((ev, k), 0) >= per_kind or idx in chosen:
                    continue
                e2 = json.loads(lines[idx])
                try:
                    applicable = fn(e2)
                except (KeyError, IndexError, TypeError, ValueError):
                    applicable = False   # a frame without the field (e.g. a year whose conversion panicked): not this line
                if applicable is False:
                    continue
                chosen[idx] = (e2, prefix)
                used[(ev, k)] = used.get((ev, k), 0) + 1
        missing = [(ev, k) for ev in mutators for k in range(len(mutators[ev])) if used.get((ev, k), 0) == 0]
        if missing:
            if self.unlisted_so_far():
                log("negative control skipped on an already rejected trace (no line to corrupt for %s)" % (missing,))
                return
            raise Infra("negative control: no line to corrupt for %s in %s" % (missing, chunk))
        # keep stateful context: emit the whole chunk prefix up to the last chosen line
        last = max(chosen)
        for idx in range(last + 1):
            if idx in chosen:
                out_lines.append(json.dumps(chosen[idx][0], ensure_ascii=False))
                expect.append((len(out_lines), chosen[idx][1]))
            elif pooled and _ev_of(lines[idx]) in mutators:
                continue   # self-contained frames of the corrupted kinds: the untouched ones add nothing here
            else:
                out_lines.append(lines[idx])
        path = chunk + ".neg"
        with open(path, "w", encoding="utf-8") as f:
            f.write("\n".join(out_lines) + "\n")
        rej, _ = self.validate(module, [path], cfg=cfg, record=False, env=env)
        byline = {}
        for r in rej:
            byline.setdefault(r["line"], []).append(r["name"])
        for lineno, prefix in expect:
            names = byline.get(lineno, [])
            if not any(n.startswith(prefix) for n in names):
                if self.unlisted_so_far():
                    # the real trace was already rejected: the controls protect against a vacuous specification on a
                    # tree that PASSES; on a rejected trace a control that comes out differently does not undo the verdict
                    log("negative control inconclusive on an already rejected trace (line %d, expected %s*, got %s); verdicts stand"
                        % (lineno, prefix, names[:3]))
                    self.cov.setdefault("negative_controls_inconclusive", 0)
                    self.cov["negative_controls_inconclusive"] += 1
                    continue
                raise Infra("negative control FAILED: corrupted line %d of %s (expected a REJECT %s*) was accepted "
                            "(got %s) - the trace specification does not bind this field" % (lineno, path, prefix, names))
        self.cov["negative_controls"] += len(expect)
        log("negative control %s: %d corrupted lines, all rejected" % (module, len(expect)))
        os.remove(path)

    # ------------------------------------------------------- behaviour export
    def export_edges(self, module, cfg, marker="EDGE", workers=NCPU, timeout=1800, heap="8g", env=None):
        rc, out = self.tlc(module, cfg, workers=workers, timeout=timeout, heap=heap, tag="mbt", env=env)
        if "Model checking completed. No error has been found." not in out:
            raise Infra("behaviour export %s/%s failed:\n%s" % (module, cfg, out[-3000:]))
        edges = []
        pat = re.compile(r'^<<"%s", (.*)>>$' % marker)
        for line in tlc_records(out, (marker,)):
            m = pat.match(line)
            if m:
                edges.append(m.group(1))
        for line in out.splitlines():
            mm = STATES_RE.match(line)
            if mm:
                self.cov["mc_runs"].append({"module": module, "cfg": cfg, "generated": int(mm.group(1)),
                                            "distinct": int(mm.group(2)), "ok": True, "mode": "behaviour export"})
        if not edges:
            raise Infra("behaviour export %s/%s produced no edges" % (module, cfg))
        log("export %s/%s: %d edges" % (module, cfg, len(edges)))
        return edges

    # -------------------------------------------------------------- samples
    def sample_from(self, chunks, n=3):
        for c in chunks[:n]:
            with open(c, encoding="utf-8") as f:
                line = f.readline().strip()
                if line:
                    s = line if len(line) < 600 else line[:600] + "...(truncated)"
                    self.cov["samples"].append(s)

    def count_distinct(self, chunks, keyfn):
        """distinct_nontrivial: count distinct keys over all events (measured)."""
        for c in chunks:
            with open(c, encoding="utf-8") as f:
                for line in f:
                    try:
                        e = json.loads(line)
                    except Exception:
                        continue
                    k = keyfn(e)
                    if k is not None:
                        self.nontrivial.add(k)

    # --------------------------------------------------------------- finish
    def unlisted_so_far(self):
        """verdict-bearing REJECTs recorded so far that no open known finding lists"""
        mine = [k for k in load_known() if k.get("property") == self.pid and k.get("status", "open") == "open"]
        return [r for r in self.rejects if not r["name"].startswith("EXT.") and not any(match_known(k, r) for k in mine)]

    def finish(self):
        kf = load_known()
        mine = [k for k in kf if k.get("property") == self.pid and k.get("status", "open") == "open"]
        violations = []
        known_hit = {}
        ext = [r for r in self.rejects if r["name"].startswith("EXT.")]
        for r in self.rejects:
            if r["name"].startswith("EXT."):
                continue   # behaviour outside the listed properties: reported, never a verdict on a listed property
            hit = None
            for k in mine:
                if match_known(k, r):
                    hit = k
                    break
            if hit is not None:
                known_hit.setdefault(hit["id"], []).append(r)
            else:
                violations.append(r)
        for k in mine:
            n = len(known_hit.get(k["id"], []))
            print("KNOWN-FINDING: property=%s %s [%s; %d occurrence(s) in this run]" % (self.pid, k["what"], k["id"], n))
        dump = os.environ.get("VERIF_DUMP_REJECTS")
        if dump:   # development aid: all REJECTs of this run (used to draw up known_findings.json entries by hand)
            with open(dump, "w", encoding="utf-8") as f:
                for r in self.rejects:
                    f.write(json.dumps({"name": r["name"], "key": r["key"]}, ensure_ascii=False) + "\n")
        extn = {}
        for r in ext:
            extn.setdefault(r["name"], []).append(r["key"])
        for name, keys in sorted(extn.items()):
            print("EXT-OBSERVATION (specified behaviour outside the listed properties; not a verdict): %s count=%d first_key=%s" % (name, len(keys), keys[0][:200]))
        self.cov["extension_rejects"] = {k: len(v_) for k, v_ in extn.items()}
        replay_dir = os.path.join(OUTBASE, "out", "replay", self.pid)
        shutil.rmtree(replay_dir, ignore_errors=True)
        nviol = 0
        if violations:
            os.makedirs(replay_dir, exist_ok=True)
            # group by check name; one replay file per (name) up to 20 files, each with up to 50 keys
            byname = {}
            for r in violations:
                byname.setdefault(r["name"], []).append(r)
            for i, (name, rs) in enumerate(sorted(byname.items())):
                nviol += len(rs)
                if i >= 40:
                    continue
                first = rs[0]
                frame = None
                try:
                    with open(first["chunk"], encoding="utf-8") as f:
                        for n_, line in enumerate(f, 1):
                            if n_ == first["line"]:
                                frame = line.strip()
                                break
                except Exception:
                    pass
                path = os.path.join(replay_dir, "%02d.json" % i)
                with open(path, "w", encoding="utf-8") as f:
                    json.dump({"property": self.pid, "check": name, "count": len(rs),
                               "keys": [r["key"] for r in rs[:50]], "tier": self.tier, "seed": self.seed,
                               "driver": self.drivers.get(first["chunk"]) or self.drivers.get(first["chunk"].replace(".neg", "")),
                               "line": first["line"], "frame": frame}, f, ensure_ascii=False, indent=1)
                print("VIOLATION property=%s replay=%s check=%s count=%d first_key=%s" %
                      (self.pid, path, name, len(rs), first["key"][:200]))
        self.write_evidence(nviol)
        if not self.keep:
            for f in glob.glob(os.path.join(self.dir, "*.ndjson")) + glob.glob(os.path.join(self.dir, "*.tsv")):
                os.remove(f)
            shutil.rmtree(self.specdir, ignore_errors=True)
        log("%s %s seed=%d: %d REJECT (%d unlisted), %d events, %.1fs" %
            (self.pid, self.tier, self.seed, len(self.rejects), nviol, self.cov["trace_events"], time.time() - self.t0))
        return 1 if nviol else 0

    def write_evidence(self, nviol):
        cov = dict(self.cov)
        cov["evaluations"] = max(1, cov["trace_events"] + cov["transitions"])
        cov["distinct_nontrivial"] = max(cov["distinct_nontrivial"], len(self.nontrivial))
        cov["rule"] = self.rule
        if not cov["samples"]:
            cov["samples"] = ["(no sample recorded)"]
        cov["known_findings_reproduced"] = sorted({r["name"] for r in self.rejects})
        ev = {"property_id": self.pid, "tier": self.tier, "seed": self.seed, "level": self.level,
              "coverage": cov, "assumptions": self.assumptions, "wall_s": round(time.time() - self.t0, 1),
              "violations": nviol}
        os.makedirs(os.path.join(OUTBASE, "evidence"), exist_ok=True)
        with open(os.path.join(OUTBASE, "evidence", self.pid + ".json"), "w", encoding="utf-8") as f:
            json.dump(ev, f, ensure_ascii=False, indent=1)


def load_known():
    p = os.path.join(VERIF, "known_findings.json")
    if not os.path.exists(p):
        return []
    return json.load(open(p, encoding="utf-8")).get("findings", [])


def match_known(k, r):
    if k.get("check") != r["name"]:
        return False
    key = r["key"]
    if "keys" in k:
        return key in k["keys"]
    if "key_regex" in k:
        return re.search(k["key_regex"], key) is not None
    return False
