#!/usr/bin/env python3
"""Extracts the accessor expressions and FD tables from spec/Almanac.tla for the drivers."""
import re, sys, os
V = os.path.dirname(os.path.dirname(os.path.abspath(__file__)))

def tables():
    src = open(os.path.join(V, "spec", "Almanac.tla"), encoding="utf-8").read()
    src = re.sub(r"\\\*.*", "", src)
    defs = {}
    for name in ("Equiv", "SectEquiv", "BaZiArrays", "FD11", "FD18"):
        m = re.search(r"^%s == \{(.*?)^\S" % name, src + "\nEND", re.S | re.M)
        body = m.group(1)
        defs[name] = body
    expr_re = re.compile(r'"([A-Za-z0-9]+\.[A-Za-z0-9]+(?:\([0-9, ]*\))?)"')
    return defs, expr_re

def exprs_for(names):
    defs, expr_re = tables()
    out = []
    for n in names:
        for x in expr_re.findall(defs[n]):
            if x not in out:
                out.append(x)
    return out

def fd_lines(name):
    defs, expr_re = tables()
    out = []
    for m in re.finditer(r'<<\s*"([^"]+)"\s*,\s*"([^"]+)"\s*,\s*<<([^<>]*)>>\s*>>', defs[name]):
        keys = re.findall(r'"([^"]+)"', m.group(3))
        out.append("%s|%s|%s" % (m.group(1), m.group(2), ";".join(keys)))
    return out

if __name__ == "__main__":
    print("\n".join(exprs_for(["Equiv", "SectEquiv", "BaZiArrays"])))
    print("---")
    print("\n".join(fd_lines("FD11")))
