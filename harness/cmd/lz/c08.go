package main

import (
	"container/list"
	"fmt"
	"reflect"
	"sort"
	"strings"

	"github.com/6tail/lunar-go/HolidayUtil"
	"github.com/6tail/lunar-go/calendar"
)

type accAgg struct {
	kind    string
	calls   int
	panics  int
	wit     []string
	min     int64
	max     int64
	vals    map[string]bool // distinct scalar values / list elements (capped)
	over    bool
	lists   map[[2]int]bool // (len, distinct len)
	empties int
	dupWit  []string
	etypes  map[string]bool // Go types of list elements
}

const valCap = 400

func (a *accAgg) addVal(s string) {
	if len(a.vals) >= valCap {
		if !a.vals[s] {
			a.over = true
		}
		return
	}
	a.vals[s] = true
}

type c08State struct {
	agg     map[string]*accAgg
	visited map[string]int // per root moment: how many objects of each type were walked
	where   string
}

func (st *c08State) get(key string) *accAgg {
	a := st.agg[key]
	if a == nil {
		a = &accAgg{vals: map[string]bool{}, lists: map[[2]int]bool{}, min: 1 << 62, max: -(1 << 62)}
		st.agg[key] = a
	}
	return a
}

func typeName(v interface{}) string {
	t := reflect.TypeOf(v)
	for t.Kind() == reflect.Ptr {
		t = t.Elem()
	}
	return t.Name()
}

// visit calls every exported zero-argument method of obj and follows returned library objects
func (st *c08State) visit(obj interface{}, depth int) {
	if obj == nil || depth > 4 {
		return
	}
	v := reflect.ValueOf(obj)
	if v.Kind() == reflect.Ptr && v.IsNil() {
		return
	}
	tn := typeName(obj)
	limit := 1
	if tn == "DaYun" || tn == "LiuNian" || tn == "XiaoYun" || tn == "LiuYue" || tn == "NineStar" || tn == "LunarTime" || tn == "Yun" || tn == "EightChar" || tn == "JieQi" {
		limit = 3
	}
	if st.visited[tn] >= limit {
		return
	}
	st.visited[tn]++
	t := v.Type()
	for i := 0; i < t.NumMethod(); i++ {
		m := t.Method(i)
		if m.Type.NumIn() != 1 || m.Type.NumOut() < 1 || strings.HasPrefix(m.Name, "Set") {
			continue
		}
		key := tn + "." + m.Name
		a := st.get(key)
		a.calls++
		var res reflect.Value
		pan := false
		func() {
			defer func() {
				if e := recover(); e != nil {
					pan = true
					a.panics++
					if len(a.wit) < 3 {
						a.wit = append(a.wit, st.where+": "+fmt.Sprint(e))
					}
				}
			}()
			res = v.Method(i).Call(nil)[0]
		}()
		if pan {
			continue
		}
		st.record(a, res, depth)
	}
}

func isLibObj(v reflect.Value) bool {
	t := v.Type()
	for t.Kind() == reflect.Ptr {
		t = t.Elem()
	}
	return t.Kind() == reflect.Struct && strings.Contains(t.PkgPath(), "lunar-go")
}

func (st *c08State) record(a *accAgg, res reflect.Value, depth int) {
	switch res.Kind() {
	case reflect.Int, reflect.Int64:
		a.kind = "int"
		n := res.Int()
		if n < a.min {
			a.min = n
		}
		if n > a.max {
			a.max = n
		}
		a.addVal(fmt.Sprint(n))
	case reflect.Bool:
		a.kind = "bool"
		a.addVal(fmt.Sprint(res.Bool()))
	case reflect.String:
		a.kind = "string"
		if res.String() == "" {
			a.empties++
		}
		a.addVal(res.String())
	case reflect.Float64:
		a.kind = "float"
	case reflect.Slice, reflect.Array:
		a.kind = "list"
		elems := []string{}
		for i := 0; i < res.Len(); i++ {
			e := res.Index(i)
			elems = append(elems, render(e, 0))
			if (e.Kind() == reflect.Ptr && !e.IsNil() && isLibObj(e)) && depth < 3 && i < 3 {
				st.visit(e.Interface(), depth+1)
			}
		}
		st.recordList(a, elems)
	case reflect.Map:
		a.kind = "map"
		a.lists[[2]int{res.Len(), res.Len()}] = true
	case reflect.Ptr, reflect.Interface:
		if res.IsNil() {
			a.kind = "ptr"
			a.addVal("<nil>")
			return
		}
		if l, ok := res.Interface().(*list.List); ok {
			a.kind = "list"
			elems := []string{}
			k := 0
			for i := l.Front(); i != nil; i = i.Next() {
				ev := reflect.ValueOf(i.Value)
				if a.etypes == nil {
					a.etypes = map[string]bool{}
				}
				if ev.IsValid() {
					a.etypes[ev.Type().String()] = true
				} else {
					a.etypes["<nil>"] = true
				}
				elems = append(elems, render(ev, 0))
				if ev.Kind() == reflect.Ptr && !ev.IsNil() && isLibObj(ev) && depth < 3 && k < 2 {
					st.visit(i.Value, depth+1)
				}
				k++
			}
			st.recordList(a, elems)
			return
		}
		a.kind = "obj"
		if isLibObj(res) {
			st.visit(res.Interface(), depth+1)
		}
	default:
		a.kind = "other"
	}
}

func (st *c08State) recordList(a *accAgg, elems []string) {
	d := map[string]bool{}
	for _, e := range elems {
		d[e] = true
		a.addVal(e)
		if e == "" {
			a.empties++
		}
	}
	a.lists[[2]int{len(elems), len(d)}] = true
	if len(d) != len(elems) && len(a.dupWit) < 3 {
		a.dupWit = append(a.dupWit, st.where+": "+strings.Join(elems, ","))
	}
}

func c08Accessors(c *ctx) {
	st := &c08State{agg: map[string]*accAgg{}}
	nd := c.argInt("days", 3000)
	days := [][3]int{}
	for _, y := range []int{1, 8, 15, 16, 237, 1582, 2020, 2024, 2033, 9998} {
		for _, md := range [][2]int{{1, 1}, {2, 28}, {6, 21}, {10, 4}, {10, 15}, {12, 22}, {12, 31}, {1, 14}, {2, 11}} {
			if _, bad := safeSolar(y, md[0], md[1], 0, 0, 0); !bad {
				days = append(days, [3]int{y, md[0], md[1]})
			}
		}
	}
	// days the library's own case analysis singles out: the leap days 4 and 8 years before every century year that
	// is not a leap year (whole-year stepping from them), and the turn of the year in and after the years at the
	// ends of its leap-11/12 tables (whose month lists must agree with their neighbours')
	for cy := 1700; cy <= 9900; cy += 100 {
		if cy%400 != 0 {
			days = append(days, [3]int{cy - 4, 2, 29}, [3]int{cy - 8, 2, 29})
		}
	}
	for _, tab := range [][]int{calendar.LEAP_11, calendar.LEAP_12} {
		for _, k := range []int{0, len(tab) - 2, len(tab) - 1} {
			if k < 0 || k >= len(tab) {
				continue
			}
			for _, y := range []int{tab[k], tab[k] + 1} {
				if y < 1 || y > 9998 {
					continue
				}
				for _, md := range [][2]int{{1, 1}, {1, 8}, {1, 15}, {1, 22}, {1, 29}, {2, 5}, {2, 12}, {2, 19}, {12, 3}, {12, 10}, {12, 17}, {12, 24}, {12, 31}} {
					days = append(days, [3]int{y, md[0], md[1]})
				}
			}
		}
	}
	// every term day of three seeded years (the eight-node festivals and the seasonal counters hang on them)
	for k := 0; k < 3; k++ {
		ty := []int{2024, 1 + c.rng.Intn(1600), 1700 + c.rng.Intn(8000)}[k]
		try(func() {
			s0, _ := safeSolar(ty, 6, 15, 12, 0, 0)
			for _, row := range termTable(s0.GetLunar()) {
				if len(row) == 7 && row[1].(int) == ty {
					days = append(days, [3]int{ty, row[2].(int), row[3].(int)})
				}
			}
		})
	}
	nd += len(days)
	for len(days) < nd {
		y := 1 + c.rng.Intn(9998)
		if c.rng.Intn(2) == 0 {
			y = 1900 + c.rng.Intn(200)
		}
		m, d := 1+c.rng.Intn(12), 1+c.rng.Intn(31)
		if _, bad := safeSolar(y, m, d, 0, 0, 0); !bad {
			days = append(days, [3]int{y, m, d})
		}
	}
	tods := []int{0, 43200, 82800, 86399, 3600}
	for i, d := range days {
		if !c.mine(i) {
			continue
		}
		for _, sod := range []int{tods[i%5], tods[(i+2)%5]} {
			h, mi, se := hms(sod)
			s, _ := safeSolar(d[0], d[1], d[2], h, mi, se)
			st.where = s.ToYmdHms()
			st.visited = map[string]int{}
			try(func() {
				st.visit(s, 0)
				l := s.GetLunar()
				st.visit(l, 0)
				for _, sect := range []int{1, 2} {
					ec := l.GetEightChar()
					ec.SetSect(sect)
					st.visited["EightChar"] = 0
					st.visit(ec, 1)
					for _, g := range []int{0, 1} {
						for _, ys := range []int{1, 2} {
							if (i+g+ys+sect)%3 == 0 {
								yun := ec.GetYunBySect(g, ys)
								st.visited["Yun"], st.visited["DaYun"] = 0, 0
								st.visit(yun, 1)
								// the period before the first great fortune (index 0) and a later one
								dy := yun.GetDaYun()
								st.visited["DaYun"], st.visited["LiuNian"], st.visited["XiaoYun"], st.visited["LiuYue"] = 0, 0, 0, 0
								st.visit(dy[0], 2)
								st.visit(dy[1+i%9], 2)
							}
						}
					}
				}
				st.visit(calendar.NewLunarYear(l.GetYear()), 1)
				st.visit(calendar.NewLunarMonthFromYm(l.GetYear(), l.GetMonth()), 1)
				for _, t := range l.GetTimes()[:3] {
					st.visit(t, 2)
				}
				start := i % 7
				st.visit(calendar.NewSolarWeekFromYmd(d[0], d[1], d[2], start), 1)
				st.visit(calendar.NewSolarMonthFromYm(d[0], d[1]), 1)
				st.visit(calendar.NewSolarSeasonFromYm(d[0], d[1]), 1)
				st.visit(calendar.NewSolarHalfYearFromYm(d[0], d[1]), 1)
				st.visit(calendar.NewSolarYearFromYear(d[0]), 1)
				if h := HolidayUtil.GetHolidayByYmd(d[0], d[1], d[2]); h != nil {
					st.visit(h, 1)
				}
			})
		}
	}
	keys := []string{}
	for k := range st.agg {
		keys = append(keys, k)
	}
	sort.Strings(keys)
	for _, k := range keys {
		a := st.agg[k]
		vals := []string{}
		for v := range a.vals {
			vals = append(vals, v)
		}
		sort.Strings(vals)
		ls := [][]int{}
		for p := range a.lists {
			ls = append(ls, []int{p[0], p[1]})
		}
		sort.Slice(ls, func(i, j int) bool { return ls[i][0] < ls[j][0] || (ls[i][0] == ls[j][0] && ls[i][1] < ls[j][1]) })
		if a.wit == nil {
			a.wit = []string{}
		}
		if a.dupWit == nil {
			a.dupWit = []string{}
		}
		mn, mx := a.min, a.max
		if a.kind != "int" {
			mn, mx = 0, 0
		}
		ets := []string{}
		for t := range a.etypes {
			ets = append(ets, t)
		}
		sort.Strings(ets)
		c.emit(obj{"ev": "C08Acc", "acc": k, "kind": a.kind, "calls": a.calls, "panics": a.panics, "wit": a.wit, "min": mn, "max": mx,
			"vals": vals, "over": b2i(a.over), "lists": ls, "empties": a.empties, "dup": a.dupWit, "etypes": ets})
	}
}

func init() { cmds["c08accessors"] = c08Accessors }
