package main

// tables: dump the month tables of windows of years from the code under test,
// for the model checks that read them (MC_Lunar).
func tablesCmd(c *ctx) {
	wins := [][2]int{{5, 26}, {234, 242}, {1580, 1584}, {2017, 2035}}
	if c.tier == "thorough" {
		wins = append(wins, [2]int{1, 4}, [2]int{1640, 1646}, [2]int{2128, 2131}, [2]int{2260, 2264}, [2]int{9990, 9998})
	}
	for _, w := range wins {
		for y := w[0]; y <= w[1]; y++ {
			t := yearTable(y)
			rows := [][]int{}
			for _, r := range t {
				rows = append(rows, r[:4])
			}
			c.emit(obj{"y": y, "t": rows})
		}
	}
}

func init() { cmds["tables"] = tablesCmd }
