package main

import (
	"bufio"
	"container/list"
	"fmt"
	"os"
	"time"

	"github.com/6tail/lunar-go/SolarUtil"
	"github.com/6tail/lunar-go/calendar"
)

var c15Boundary = []int{1, 4, 100, 1581, 1582, 1583, 1600, 1900, 2000, 2019, 2020, 2021, 2022, 2023, 9998}

func ymd(s *calendar.Solar) []int { return []int{s.GetYear(), s.GetMonth(), s.GetDay()} }

func solarList(l *list.List) ([][]int, bool) {
	o := [][]int{}
	bad := false
	if l == nil {
		return o, true
	}
	for i := l.Front(); i != nil; i = i.Next() {
		switch v := i.Value.(type) {
		case *calendar.Solar:
			o = append(o, ymd(v))
		case calendar.Solar:
			o = append(o, ymd(&v))
		default:
			bad = true
		}
	}
	return o, bad
}

// weekObs projects one SolarWeek: fields, indices, first day, the seven days,
// the days in the month, the first day in the month.
func weekObs(w *calendar.SolarWeek) obj {
	o := obj{"f": []int{w.GetYear(), w.GetMonth(), w.GetDay()}}
	var idx, idy int
	var first *calendar.Solar
	p, _ := try(func() { idx = w.GetIndex() })
	o["idx"] = []int{b2i(p), idx}
	p, _ = try(func() { idy = w.GetIndexInYear() })
	o["idy"] = []int{b2i(p), idy}
	p, _ = try(func() { first = w.GetFirstDay() })
	if p {
		o["first"] = []int{1, 0, 0, 0}
	} else {
		o["first"] = append([]int{0}, ymd(first)...)
	}
	var days, dim [][]int
	p, _ = try(func() { days, _ = solarList(w.GetDays()) })
	o["days"] = days
	o["pdays"] = b2i(p)
	p, _ = try(func() { dim, _ = solarList(w.GetDaysInMonth()) })
	if dim == nil {
		dim = [][]int{}
	}
	o["dim"] = dim
	o["pdim"] = b2i(p)
	var fim *calendar.Solar
	p, _ = try(func() { fim = w.GetFirstDayInMonth() })
	if p || fim == nil {
		o["fim"] = []int{1, 0, 0, 0}
	} else {
		o["fim"] = append([]int{0}, ymd(fim)...)
	}
	return o
}

func c15Months(c *ctx) {
	years := c.yearsFor(c15Boundary, c.argInt("years", 60), 1, 9998)
	light := c.tier == "thorough"
	for _, y := range years {
		if !c.mine(y) {
			continue
		}
		for m := 1; m <= 12; m++ {
			sm := calendar.NewSolarMonthFromYm(y, m)
			days, _ := solarList(sm.GetDays())
			for start := 0; start <= 6; start++ {
				f := obj{"ev": "C15Month", "y": y, "m": m, "s": start}
				if start == 0 {
					f["days"] = days
				}
				var wom int
				p, _ := try(func() { wom = SolarUtil.GetWeeksOfMonth(y, m, start) })
				f["wom"] = []int{b2i(p), wom}
				weeks := []obj{}
				p, _ = try(func() {
					l := sm.GetWeeks(start)
					for i := l.Front(); i != nil; i = i.Next() {
						w := i.Value.(*calendar.SolarWeek)
						if light && y != 1582 && (y+m+start)%5 != 0 {
							weeks = append(weeks, obj{"f": []int{w.GetYear(), w.GetMonth(), w.GetDay()}, "first": append([]int{0}, ymd(w.GetFirstDay())...)})
						} else {
							weeks = append(weeks, weekObs(w))
						}
					}
				})
				f["weeks"] = weeks
				f["pweeks"] = b2i(p)
				// every existing day of the month as a week anchor
				per := [][]int{}
				for _, d := range days {
					w := calendar.NewSolarWeekFromYmd(d[0], d[1], d[2], start)
					var idx, idy int
					var first *calendar.Solar
					pp, _ := try(func() { idx = w.GetIndex(); idy = w.GetIndexInYear(); first = w.GetFirstDay() })
					if pp {
						per = append(per, []int{d[2], 1, 0, 0, 0, 0, 0})
					} else {
						per = append(per, append([]int{d[2], 0, idx, idy}, ymd(first)...))
					}
				}
				f["per"] = per
				c.emit(f)
			}
		}
		// units of the year
		u := obj{"ev": "C15Units", "y": y}
		ms := [][]int{}
		for i := calendar.NewSolarYearFromYear(y).GetMonths().Front(); i != nil; i = i.Next() {
			mo := i.Value.(*calendar.SolarMonth)
			ms = append(ms, []int{mo.GetYear(), mo.GetMonth()})
		}
		u["ymonths"] = ms
		seas := []obj{}
		for m := 1; m <= 12; m++ {
			se := calendar.NewSolarSeasonFromYm(y, m)
			hy := calendar.NewSolarHalfYearFromYm(y, m)
			a := [][]int{}
			for i := se.GetMonths().Front(); i != nil; i = i.Next() {
				mo := i.Value.(*calendar.SolarMonth)
				a = append(a, []int{mo.GetYear(), mo.GetMonth()})
			}
			b := [][]int{}
			for i := hy.GetMonths().Front(); i != nil; i = i.Next() {
				mo := i.Value.(*calendar.SolarMonth)
				b = append(b, []int{mo.GetYear(), mo.GetMonth()})
			}
			seas = append(seas, obj{"m": m, "si": se.GetIndex(), "sm": a, "hi": hy.GetIndex(), "hm": b})
		}
		u["per"] = seas
		// units built from a time.Time: the unit of the date the value itself shows (its own zone's wall clock),
		// whatever zone the process runs in; each row pairs the object built from the value with the one built
		// from the value's fields
		fd := [][]interface{}{}
		for _, off := range []int{14 * 3600, -12 * 3600, 0, 8 * 3600} {
			loc := time.FixedZone("fixed", off)
			for mi, md := range [][4]int{{1, 1, 0, 30}, {12, 31, 23, 30}, {1 + c.rng.Intn(12), 1 + c.rng.Intn(28), c.rng.Intn(24), c.rng.Intn(60)}} {
				if y < 1600 {
					continue // time.Time is proleptic Gregorian: its fields name other days before the switch
				}
				// whole seconds, and a value in the last half second of a minute (a time value is truncated to its second)
				t := time.Date(y, time.Month(md[0]), md[1], md[2], md[3], 7, 0, loc)
				if mi == 1 || (mi == 2 && md[3]%2 == 0) {
					t = time.Date(y, time.Month(md[0]), md[1], md[2], 59, 59, 600000000+md[3]*1000, loc)
				}
				pfd, _ := try(func() {
					a, b := calendar.NewSolarFromDate(t), calendar.NewSolar(t.Year(), int(t.Month()), t.Day(), t.Hour(), t.Minute(), t.Second())
					fd = append(fd, []interface{}{"Solar", off, sol(a), sol(b)})
					w1, w2 := calendar.NewSolarWeekFromDate(t, 1), calendar.NewSolarWeekFromYmd(t.Year(), int(t.Month()), t.Day(), 1)
					fd = append(fd, []interface{}{"SolarWeek", off, sol(w1.GetFirstDay()), sol(w2.GetFirstDay())})
					m1, m2 := calendar.NewSolarMonthFromDate(t), calendar.NewSolarMonthFromYm(t.Year(), int(t.Month()))
					fd = append(fd, []interface{}{"SolarMonth", off, []int{m1.GetYear(), m1.GetMonth()}, []int{m2.GetYear(), m2.GetMonth()}})
					y1 := calendar.NewSolarYearFromDate(t)
					fd = append(fd, []interface{}{"SolarYear", off, []int{y1.GetYear()}, []int{t.Year()}})
					s1, s2 := calendar.NewSolarSeasonFromDate(t), calendar.NewSolarSeasonFromYm(t.Year(), int(t.Month()))
					fd = append(fd, []interface{}{"SolarSeason", off, []int{s1.GetYear(), s1.GetMonth()}, []int{s2.GetYear(), s2.GetMonth()}})
					h1, h2 := calendar.NewSolarHalfYearFromDate(t), calendar.NewSolarHalfYearFromYm(t.Year(), int(t.Month()))
					fd = append(fd, []interface{}{"SolarHalfYear", off, []int{h1.GetYear(), h1.GetMonth()}, []int{h2.GetYear(), h2.GetMonth()}})
					l1 := calendar.NewLunarFromDate(t)
					fd = append(fd, []interface{}{"Lunar", off, sol(l1.GetSolar()), sol(b)})
				})
				if pfd {
					// a constructor panicked on a time value all of whose fields are in range
					fd = append(fd, []interface{}{"panic", off, []int{t.Year(), int(t.Month()), t.Day(), t.Hour(), t.Minute(), t.Second(), t.Nanosecond()}, []int{}})
				}
			}
		}
		if y == 1582 {
			// October 1582: a time value whose own fields name one of the ten days the civil calendar lacks is refused like
			// the same fields given as integers (the constructors read the value's fields); the days after the gap build
			for d := 3; d <= 17; d++ {
				t := time.Date(1582, 10, d, 8+d%12, 30, 15, 0, time.FixedZone("fixed", (d%5-2)*3600))
				a, b := []int{}, []int{}
				try(func() { a = sol(calendar.NewSolarFromDate(t)) })
				try(func() { b = sol(calendar.NewSolar(t.Year(), int(t.Month()), t.Day(), t.Hour(), t.Minute(), t.Second())) })
				fd = append(fd, []interface{}{"Solar", d, a, b})
				a, b = []int{}, []int{}
				try(func() { a = sol(calendar.NewLunarFromDate(t).GetSolar()) })
				try(func() { b = sol(calendar.NewSolar(t.Year(), int(t.Month()), t.Day(), t.Hour(), t.Minute(), t.Second())) })
				fd = append(fd, []interface{}{"Lunar", d, a, b})
			}
		}
		u["fromDate"] = fd
		c.emit(u)
	}
}

// navigation: Next(n) on every unit kind, and the way back
func c15Nav(c *ctx) {
	years := c.yearsFor(c15Boundary, c.argInt("years", 30), 2, 9997)
	ns := []int{-14, -13, -12, -7, -6, -5, -4, -3, -2, -1, 0, 1, 2, 3, 4, 5, 6, 7, 12, 13, 14}
	perYear := c.argInt("days", 12)
	if path := c.arg("anchors", ""); path != "" {
		// positions chosen by TLC (MC_Weeks): "y m d start"
		f, err := os.Open(path)
		if err != nil {
			fmt.Fprintln(os.Stderr, err)
			os.Exit(2)
		}
		sc := bufio.NewScanner(f)
		i := 0
		for sc.Scan() {
			i++
			if !c.mine(i) {
				continue
			}
			var y, m, d, st int
			if k, _ := fmt.Sscan(sc.Text(), &y, &m, &d, &st); k != 4 {
				fmt.Fprintln(os.Stderr, "bad anchor line:", sc.Text())
				os.Exit(2)
			}
			c15NavOne(c, []int{y, m, d}, st, ns)
		}
		f.Close()
		return
	}
	for _, y := range years {
		if !c.mine(y) {
			continue
		}
		anchors := [][]int{}
		for k := 0; k < perYear; k++ {
			s, p := safeSolar(y, 1+c.rng.Intn(12), 1+c.rng.Intn(31), 0, 0, 0)
			if !p {
				anchors = append(anchors, ymd(s))
			}
		}
		if y == 1582 {
			for _, d := range []int{1, 4, 15, 16, 17, 21, 31} {
				anchors = append(anchors, []int{1582, 10, d})
			}
			anchors = append(anchors, []int{1582, 9, 28}, []int{1582, 11, 1})
		}
		anchors = append(anchors, []int{y, 1, 1}, []int{y, 12, 31}, []int{y, 2, 28}, []int{y, 3, 1})
		if y == years[0] {
			anchors = append(anchors, c15CycleAnchors...)
		}
		for _, a := range anchors {
			c15NavOne(c, a, c.rng.Intn(7), ns)
		}
	}
}

// anchors 400 and 800 years after the days next to the 1582 gap (a step of whole Gregorian cycles lands on them)
var c15CycleAnchors = [][]int{{1982, 10, 1}, {1982, 10, 4}, {1982, 10, 10}, {1982, 10, 14}, {1982, 10, 15}, {2382, 10, 7}, {1982, 1, 1}}

func c15NavOne(c *ctx, a []int, start int, ns []int) {
	{
		{
			f := obj{"ev": "C15Nav", "at": a, "s": start}
			w := calendar.NewSolarWeekFromYmd(a[0], a[1], a[2], start)
			wf := [][]int{}
			ws := []obj{}
			// plus a few long steps (hundreds and thousands of weeks: across century years) for the plain walk
			wns := append([]int{}, ns...)
			if a[0] > 150 && a[0] < 9850 {
				wns = append(wns, 300, -300, 1000, -1000, 5200, -5200)
			}
			if a[0] > 450 && a[0] < 9550 {
				// one whole Gregorian cycle of 400 years = 20871 weeks, either way
				wns = append(wns, 20871, -20871)
			}
			for _, n := range wns {
				var r, b *calendar.SolarWeek
				p, _ := try(func() { r = w.Next(n, false); b = r.Next(-n, false) })
				if p {
					wf = append(wf, []int{n, 1, 0, 0, 0, 0, 0, 0})
				} else {
					wf = append(wf, []int{n, 0, r.GetYear(), r.GetMonth(), r.GetDay(), b.GetYear(), b.GetMonth(), b.GetDay()})
				}
				if n >= -7 && n <= 7 {
					var r2, b2 *calendar.SolarWeek
					var ro, bo obj
					p2, _ := try(func() {
						r2 = w.Next(n, true)
						ro = obj{"f": []int{r2.GetYear(), r2.GetMonth(), r2.GetDay()}, "idx": r2.GetIndex(), "first": ymd(r2.GetFirstDay())}
						b2 = r2.Next(-n, true)
						bo = obj{"f": []int{b2.GetYear(), b2.GetMonth(), b2.GetDay()}, "idx": b2.GetIndex(), "first": ymd(b2.GetFirstDay())}
					})
					if p2 {
						ws = append(ws, obj{"n": n, "p": 1})
					} else {
						ws = append(ws, obj{"n": n, "p": 0, "r": ro, "b": bo})
					}
				}
			}
			f["wf"] = wf
			f["ws"] = ws
			// month / season / half-year / year units
			un := [][]int{}
			for _, n := range ns {
				m1 := calendar.NewSolarMonthFromYm(a[0], a[1]).Next(n)
				m2 := m1.Next(-n)
				s1 := calendar.NewSolarSeasonFromYm(a[0], a[1]).Next(n)
				s2 := s1.Next(-n)
				h1 := calendar.NewSolarHalfYearFromYm(a[0], a[1]).Next(n)
				h2 := h1.Next(-n)
				y1 := calendar.NewSolarYearFromYear(a[0]).Next(n)
				y2 := y1.Next(-n)
				un = append(un, []int{n, m1.GetYear(), m1.GetMonth(), m2.GetYear(), m2.GetMonth(),
					s1.GetYear(), s1.GetMonth(), s1.GetIndex(), s2.GetYear(), s2.GetMonth(), s2.GetIndex(),
					h1.GetYear(), h1.GetMonth(), h1.GetIndex(), h2.GetYear(), h2.GetMonth(), h2.GetIndex(),
					y1.GetYear(), y2.GetYear()})
			}
			f["un"] = un
			c.emit(f)
		}
	}
}

func init() {
	cmds["c15months"] = c15Months
	cmds["c15nav"] = c15Nav
}
