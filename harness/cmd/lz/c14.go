package main

import (
	"container/list"
	"crypto/sha1"
	"fmt"
	"strings"

	"github.com/6tail/lunar-go/HolidayUtil"
	"github.com/6tail/lunar-go/calendar"
)

func atoi(s string) int {
	n := 0
	fmt.Sscanf(s, "%d", &n)
	return n
}

func ymdInt(s string) int { return atoi(strings.Replace(s, "-", "", -1)) }

// raw records of the table in use, cut from the library's own string: [day, nameIndex, work, target]
func rawRecords() [][]int {
	d := HolidayUtil.VerifData()
	o := [][]int{}
	for i := 0; i+18 <= len(d); i += 18 {
		seg := d[i : i+18]
		o = append(o, []int{atoi(seg[0:8]), int(seg[8] - '0'), b2i(seg[9] == '0'), atoi(seg[10:18])})
	}
	return o
}

func nameIndex(name string) int {
	for i, v := range HolidayUtil.VerifNames() {
		if v == name {
			return i
		}
	}
	return -1
}

func hol(h *HolidayUtil.Holiday) []int {
	if h == nil {
		return []int{}
	}
	return []int{ymdInt(h.GetDay()), nameIndex(h.GetName()), b2i(h.IsWork()), ymdInt(h.GetTarget())}
}

func holList(l *list.List) [][]int {
	o := [][]int{}
	for i := l.Front(); i != nil; i = i.Next() {
		o = append(o, hol(i.Value.(*HolidayUtil.Holiday)))
	}
	return o
}

// digest of the raw records whose year is not in ys (the records a Fix on those years must leave alone)
func restDigest(ys map[int]bool) string {
	h := sha1.New()
	for _, r := range rawRecords() {
		if !ys[r[0]/10000] {
			fmt.Fprintf(h, "%v;", r)
		}
	}
	return fmt.Sprintf("%x", h.Sum(nil))[:16]
}

var fixYears = map[int]bool{2030: true, 2031: true}

func emitTable(c *ctx, tag string) {
	c.emit(obj{"ev": "C14Table", "tag": tag, "recs": rawRecords(), "names": HolidayUtil.VerifNames(), "rawlen": len(HolidayUtil.VerifData()), "rest": restDigest(fixYears)})
}

// views of the table for a set of years: by day (every day), by month, by year, by target
func emitViews(c *ctx, years []int, extraTargets []int, allTargets bool) {
	for _, y := range years {
		days := [][]interface{}{}
		months := [][]interface{}{}
		for m := 1; m <= 12; m++ {
			var ml [][]int
			var ml2, ml3 [][]int
			p, _ := try(func() {
				ml = holList(HolidayUtil.GetHolidaysByYm(y, m))
				// the string overload takes a prefix of a day key, with or without dashes
				ml2 = holList(HolidayUtil.GetHolidays(fmt.Sprintf("%04d%02d", y, m)))
				ml3 = holList(HolidayUtil.GetHolidays(fmt.Sprintf("%04d-%02d", y, m)))
			})
			months = append(months, []interface{}{y*100 + m, b2i(p), ml, ml2, ml3})
			for d := 1; d <= 31; d++ {
				if _, bad := safeSolar(y, m, d, 0, 0, 0); bad {
					continue
				}
				var h, h2 []int
				var lst [][]int
				p, _ := try(func() {
					h = hol(HolidayUtil.GetHolidayByYmd(y, m, d))
					h2 = hol(HolidayUtil.GetHoliday(fmt.Sprintf("%04d-%02d-%02d", y, m, d)))
					lst = holList(HolidayUtil.GetHolidays(fmt.Sprintf("%04d%02d%02d", y, m, d)))
				})
				if p || len(h) > 0 || len(h2) > 0 || len(lst) > 0 {
					days = append(days, []interface{}{y*10000 + m*100 + d, b2i(p), h, h2, lst})
				}
			}
		}
		var yl, yl2 [][]int
		p, _ := try(func() {
			yl = holList(HolidayUtil.GetHolidaysByYear(y))
			yl2 = holList(HolidayUtil.GetHolidays(fmt.Sprintf("%04d", y)))
		})
		c.emit(obj{"ev": "C14Views", "y": y, "days": days, "months": months, "year": []interface{}{b2i(p), yl, yl2}})
	}
	// targets: every distinct target of the raw records + the extra ones
	seen := map[int]bool{}
	ts := [][]interface{}{}
	add := func(t int) {
		if seen[t] {
			return
		}
		seen[t] = true
		var a, b [][]int
		p, _ := try(func() {
			a = holList(HolidayUtil.GetHolidaysByTargetYmd(t/10000, t/100%100, t%100))
			b = holList(HolidayUtil.GetHolidaysByTarget(fmt.Sprintf("%04d-%02d-%02d", t/10000, t/100%100, t%100)))
		})
		ts = append(ts, []interface{}{t, b2i(p), a, b})
	}
	if allTargets {
		for _, r := range rawRecords() {
			add(r[3])
		}
	}
	for _, t := range extraTargets {
		add(t)
	}
	c.emit(obj{"ev": "C14Targets", "t": ts})
}

func c14Views(c *ctx) {
	HolidayUtil.VerifReset()
	if c.shard != 0 {
		return
	}
	c.header = func() { emitTable(c, "builtin") }
	c.inHeader = true
	emitTable(c, "builtin")
	c.inHeader = false
	years := []int{}
	for y := 2000; y <= 2027; y++ {
		years = append(years, y)
	}
	emitViews(c, years, []int{20000101, 20300101, 20141001}, true)
}

// workday stepping and salary rate for every day of the table's span
func c14Work(c *ctx) {
	HolidayUtil.VerifReset()
	c.header = func() { emitTable(c, "builtin") }
	c.inHeader = true
	emitTable(c, "builtin")
	c.inHeader = false
	ns := []int{-15, -10, -7, -5, -3, -2, -1, 1, 2, 3, 5, 7, 10, 15}
	for y := 2001; y <= 2026; y++ {
		if !c.mine(y) {
			continue
		}
		rows := []obj{}
		for m := 1; m <= 12; m++ {
			for d := 1; d <= 31; d++ {
				s, bad := safeSolar(y, m, d, 8, 30, 0)
				if bad {
					continue
				}
				row := obj{"d": y*10000 + m*100 + d}
				p, _ := try(func() {
					nx := [][]int{}
					for _, n := range ns {
						if (d+m+n)%3 != 0 && c.tier != "thorough" && n != 1 && n != -1 {
							continue
						}
						r := s.Next(n, true)
						nx = append(nx, []int{n, r.GetYear()*10000 + r.GetMonth()*100 + r.GetDay(), r.GetHour()*3600 + r.GetMinute()*60 + r.GetSecond()})
					}
					// a few long walks (a year holds about 250 working days): across two year ends
					if d == 1 && (m == 1 || m == 7) {
						for _, n := range []int{250, -250, 520, -520} {
							r := s.Next(n, true)
							nx = append(nx, []int{n, r.GetYear()*10000 + r.GetMonth()*100 + r.GetDay(), r.GetHour()*3600 + r.GetMinute()*60 + r.GetSecond()})
						}
					}
					row["nx"] = nx
					z := s.Next(0, true)
					row["z"] = []int{z.GetYear()*10000 + z.GetMonth()*100 + z.GetDay()}
					l := s.GetLunar()
					row["sal"] = []int{s.GetSalaryRate(), l.GetMonth(), l.GetDay(), b2i(l.GetJieQi() == "清明")}
				})
				row["p"] = b2i(p)
				rows = append(rows, row)
			}
		}
		c.emit(obj{"ev": "C14Work", "y": y, "rows": rows})
	}
}

func seg(day, nameIdx int, work bool, target int) string {
	w := "1"
	if work {
		w = "0"
	}
	return fmt.Sprintf("%08d%c%s%08d", day, rune('0'+nameIdx), w, target)
}

func segRemove(day int) string { return fmt.Sprintf("%08d~000000000", day) }

// Fix sequences: each line of the file is a behaviour exported from MC_Holiday:
// "i0,i1,..|op:day:name:work:target;op:...|..."  (initial subset of the universe, then fix calls of 1..2 segments)
// The universe days are mapped onto real dates far from / inside the built-in table by the caller.
func c14Fix(c *ctx) {
	path := c.arg("seqs", "")
	lines := []string{}
	if path != "" {
		b, err := osReadFile(path)
		if err != nil {
			fmt.Fprintln(os_Stderr, err)
			osExit(2)
		}
		lines = strings.Split(strings.TrimSpace(string(b)), "\n")
	}
	c.header = nil
	c.manualRotate = true
	for i, ln := range lines {
		if !c.mine(i) || ln == "" {
			continue
		}
		HolidayUtil.VerifReset()
		parts := strings.Split(ln, "|")
		c.rotateIfDue() // a sequence never straddles two chunks
		emitTable(c, "reset")
		for k, call := range parts {
			data := ""
			segs := [][]int{}
			for _, sg := range strings.Split(call, ";") {
				if sg == "" {
					continue
				}
				f := strings.Split(sg, ":")
				op, day := f[0], atoi(f[1])
				if op == "rm" {
					data += segRemove(day)
					segs = append(segs, []int{day, 1, 0, 0, 0})
				} else {
					ni, wk, tg := atoi(f[2]), atoi(f[3]) == 1, atoi(f[4])
					data += seg(day, ni, wk, tg)
					segs = append(segs, []int{day, 0, ni, b2i(wk), tg})
				}
			}
			var names []string
			if c.arg("names", "") == "1" && k == 1 {
				names = append(append([]string{}, HolidayUtil.NAMES...), "测试节")
			}
			p, _ := try(func() { HolidayUtil.Fix(names, data) })
			after := [][]int{}
			all := rawRecords()
			for _, r := range all {
				if fixYears[r[0]/10000] {
					after = append(after, r)
				}
			}
			c.emit(obj{"ev": "C14Fix", "seq": i, "k": k, "segs": segs, "p": b2i(p), "after": after, "years": []int{2030, 2031}, "rest": restDigest(fixYears),
				"total": len(all), "rawlen": len(HolidayUtil.VerifData()), "newnames": b2i(names != nil)})
			// re-query the views that the touched days belong to
			ys := map[int]bool{}
			tg := []int{}
			for _, s := range segs {
				ys[s[0]/10000] = true
				if s[1] == 0 {
					tg = append(tg, s[4])
				}
			}
			yl := []int{}
			for y := range ys {
				yl = append(yl, y)
			}
			emitViews(c, yl, tg, false)
			// workday stepping across the touched days
			for _, s := range segs {
				d := s[0]
				so, bad := safeSolar(d/10000, d/100%100, d%100, 0, 0, 0)
				if bad {
					continue
				}
				rows := []obj{}
				for _, off := range []int{-3, -2, -1, 0, 1} {
					st := so.NextDay(off)
					nx := [][]int{}
					try(func() {
						for _, n := range []int{-2, -1, 1, 2, 3, 6, -6, 9} {
							r := st.Next(n, true)
							nx = append(nx, []int{n, r.GetYear()*10000 + r.GetMonth()*100 + r.GetDay(), 0})
						}
					})
					row := obj{"d": st.GetYear()*10000 + st.GetMonth()*100 + st.GetDay(), "nx": nx, "p": 0}
					try(func() {
						l := st.GetLunar()
						row["sal"] = []int{st.GetSalaryRate(), l.GetMonth(), l.GetDay(), b2i(l.GetJieQi() == "清明")}
					})
					rows = append(rows, row)
				}
				c.emit(obj{"ev": "C14Work", "y": d / 10000, "rows": rows})
			}
		}
		if every := map[bool]int{false: 6, true: 30}[c.tier == "thorough"]; i%every == 0 {
			// (the thorough tier replays 55 times as many behaviours; the epilogue does not depend on the behaviour before it)
			c14NamesEpilogue(c, i, len(parts))
		}
	}
	HolidayUtil.VerifReset()
	_ = calendar.J2000
}

// after a replayed sequence: a fix-up that only installs a longer list of names (every built-in name changed, three
// added), then records that use the added names are added, replaced and removed; the views are read after each
func c14NamesEpilogue(c *ctx, i, k int) {
	names := []string{}
	for _, v := range HolidayUtil.NAMES {
		names = append(names, v+"·")
	}
	names = append(names, "测试节", "泼水节", "三月三")
	fix := func(nms []string, segs [][]int) {
		data := ""
		for _, s := range segs {
			if s[1] == 1 && i%2 == 0 {
				// what follows the remove mark is padding: here the record's own tail instead of zeros
				data += fmt.Sprintf("%08d~1%08d", s[0], s[0])
			} else if s[1] == 1 {
				data += segRemove(s[0])
			} else {
				data += seg(s[0], s[2], s[3] == 1, s[4])
			}
		}
		p, _ := try(func() { HolidayUtil.Fix(nms, data) })
		after := [][]int{}
		all := rawRecords()
		for _, r := range all {
			if fixYears[r[0]/10000] {
				after = append(after, r)
			}
		}
		c.emit(obj{"ev": "C14Fix", "seq": i, "k": k, "segs": segs, "p": b2i(p), "after": after, "years": []int{2030, 2031}, "rest": restDigest(fixYears),
			"total": len(all), "rawlen": len(HolidayUtil.VerifData()), "newnames": b2i(nms != nil)})
	}
	by := 2005 + (i*7)%20
	emitViews(c, []int{by}, nil, false)
	fix(names, [][]int{})
	emitViews(c, []int{2030, 2031, by}, nil, false)
	n1, n2 := 9+i%3, 9+(i+1)%3
	fix(nil, [][]int{{20310318, 0, n1, 0, 20310319}, {20310319, 0, n1, 0, 20310319}, {20310321, 0, n2, 1, 20310319}})
	emitViews(c, []int{2031}, []int{20310319}, false)
	fix(nil, [][]int{{20310318, 0, n2, 1, 20310319}, {20310321, 1, 0, 0, 0}, {20310322, 0, n1, 1, 20310319}})
	emitViews(c, []int{2031}, []int{20310319}, false)
}

func init() {
	cmds["c14views"] = c14Views
	cmds["c14work"] = c14Work
	cmds["c14fix"] = c14Fix
}
