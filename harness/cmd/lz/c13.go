package main

import (
	"github.com/6tail/lunar-go/LunarUtil"
	"github.com/6tail/lunar-go/calendar"
)

var c13Boundary = []int{1, 2, 6, 8, 9, 15, 16, 18, 19, 23, 24, 236, 237, 240, 1582, 1583, 1900, 2000, 2020, 2023, 2024, 2033, 2034, 9997, 9998}

func wuHouIndex(s string) int {
	for i, v := range LunarUtil.WU_HOU {
		if v == s {
			return i
		}
	}
	return -1
}

// everyDay calls f for every existing day of civil year y plus 1 January of y+1 (extra = true)
func everyDay(y int, f func(s *calendar.Solar, extra bool)) {
	for m := 1; m <= 12; m++ {
		for d := 1; d <= 31; d++ {
			s, p := safeSolar(y, m, d, 12, 0, 0)
			if !p {
				f(s, false)
			}
		}
	}
	if y < 9999 {
		s, p := safeSolar(y+1, 1, 1, 12, 0, 0)
		if !p {
			f(s, true)
		}
	}
}

func c13Years(c *ctx) {
	years := c.yearsFor(append(append([]int{}, c13Boundary...), termEdgeYears(c.argInt("edge", 3), false)...), c.argInt("years", 150), 1, 9998)
	for _, y := range years {
		if !c.mine(y) {
			continue
		}
		f := obj{"ev": "C13Year", "y": y}
		var l0 *calendar.Lunar
		p, _ := try(func() {
			s, _ := safeSolar(y, 6, 15, 12, 0, 0)
			l0 = s.GetLunar()
		})
		f["p"] = b2i(p)
		if p {
			c.emit(f)
			continue
		}
		f["tab"] = termTable(l0)
		rows := []obj{}
		k := 0
		everyDay(y, func(s *calendar.Solar, extra bool) {
			k++
			if k%40 == 7 {
				perturb(c, y)
			}
			row := obj{"d": []int{s.GetYear(), s.GetMonth(), s.GetDay()}, "x": b2i(extra)}
			// the counters are per civil day: the time of day the object was built for must not matter
			hmsOf := [][3]int{{12, 0, 0}, {23, 30, 0}, {0, 0, 0}, {6, 45, 10}, {23, 0, 0}}[k%5]
			pp, _ := try(func() {
				if s2, bad := safeSolar(s.GetYear(), s.GetMonth(), s.GetDay(), hmsOf[0], hmsOf[1], hmsOf[2]); !bad {
					s = s2
				}
				l := s.GetLunar()
				row["l"] = lun(l)[:3]
				if k%2 == 0 {
					// a caller that asked for the neighbouring terms (to the second) before the day-level counters
					l.GetPrevJieQi()
					l.GetNextJieQi()
					l.GetPrevJie()
				}
				if sj := l.GetShuJiu(); sj != nil {
					row["sj"] = []interface{}{sj.GetName(), sj.GetIndex(), sj.String(), sj.ToFullString()}
				} else {
					row["sj"] = []interface{}{}
				}
				if fu := l.GetFu(); fu != nil {
					row["fu"] = []interface{}{fu.GetName(), fu.GetIndex(), fu.String(), fu.ToFullString()}
				} else {
					row["fu"] = []interface{}{}
				}
				row["hou"] = l.GetHou()
				row["wh"] = wuHouIndex(l.GetWuHou())
				row["f"] = strList(l.GetFestivals())
				row["o"] = strList(l.GetOtherFestivals())
			})
			row["p"] = b2i(pp)
			rows = append(rows, row)
		})
		f["rows"] = rows
		c.emit(f)
	}
}

func starObs(n *calendar.NineStar) []interface{} {
	return []interface{}{n.GetIndex(), n.GetNumber(), n.GetColor(), n.GetWuXing(), n.GetPosition(), n.GetNameInBeiDou(), n.GetNameInXuanKong(), n.GetNameInQiMen(), n.GetNameInTaiYi(), n.String()}
}

func c16Years(c *ctx) {
	years := c.yearsFor(c13Boundary, c.argInt("years", 100), 2, 9998)
	for _, y := range years {
		if !c.mine(y) {
			continue
		}
		f := obj{"ev": "C16Year", "y": y}
		var l0 *calendar.Lunar
		var prevXiaZhi []int
		p, _ := try(func() {
			s, _ := safeSolar(y, 6, 15, 12, 0, 0)
			l0 = s.GetLunar()
			sp, _ := safeSolar(y-1, 6, 15, 12, 0, 0)
			xz := sp.GetLunar().GetJieQiTable()["夏至"]
			prevXiaZhi = sol(xz)
		})
		f["p"] = b2i(p)
		if p {
			c.emit(f)
			continue
		}
		tab := termTable(l0)
		f["tab"] = tab
		f["pxz"] = prevXiaZhi
		// the nine star objects by index
		names := [][]interface{}{}
		for i := 0; i < 9; i++ {
			names = append(names, starObs(calendar.NewNineStar(i)))
		}
		f["names"] = names
		// the lunar-year object's own year star for the lunar years around this civil year
		lys := [][]int{}
		for _, yy := range []int{y - 1, y, y + 1, 1 + (y*7)%3} {
			try(func() { lys = append(lys, []int{yy, calendar.NewLunarYear(yy).GetNineStar().GetIndex()}) })
		}
		f["lys"] = lys
		// one row per day at noon: lunar year, pillars that select the stars, the stars
		rows := []obj{}
		hourDays := map[int]bool{}
		for k := 0; k < 8; k++ {
			hourDays[1+c.rng.Intn(365)] = true
		}
		k := 0
		everyDay(y, func(s *calendar.Solar, extra bool) {
			k++
			row := obj{"d": []int{s.GetYear(), s.GetMonth(), s.GetDay()}, "x": b2i(extra)}
			pp, _ := try(func() {
				l := s.GetLunar()
				row["ly"] = l.GetYear()
				row["ys"] = []int{l.GetYearNineStarBySect(1).GetIndex(), l.GetYearNineStarBySect(2).GetIndex(), l.GetYearNineStarBySect(3).GetIndex(), l.GetYearNineStar().GetIndex()}
				row["ms"] = []int{l.GetMonthNineStarBySect(1).GetIndex(), l.GetMonthNineStarBySect(2).GetIndex(), l.GetMonthNineStarBySect(3).GetIndex(), l.GetMonthNineStar().GetIndex()}
				row["yz"] = []int{l.GetYearZhiIndex(), l.GetYearZhiIndexByLiChun(), l.GetYearZhiIndexExact()}
				if !extra {
					row["ds"] = l.GetDayNineStar().GetIndex()
				}
			})
			row["p"] = b2i(pp)
			rows = append(rows, row)
		})
		f["rows"] = rows
		// the same days asked again after the walk went past the year end (the last row is 1 January of the next year,
		// which shares this year's lunar year): a day's stars are what they were
		again := []obj{}
		try(func() {
			if y < 9990 {
				// somewhere else first, then a January day of the next year (it shares this year's lunar year)
				s0, _ := safeSolar(y+5, 7, 7, 12, 0, 0)
				s0.GetLunar().GetDayNineStar()
				s, _ := safeSolar(y+1, 1, 15, 12, 0, 0)
				s.GetLunar().GetDayNineStar()
			}
		})
		for i, r := range rows {
			d := r["d"].([]int)
			if r["p"].(int) != 0 || r["x"].(int) != 0 || !((d[1] == 2 && d[2] == 25) || (d[1] == 6 && d[2] == 15) || (d[1] == 10 && d[2] == 10) || (d[1] == 12 && d[2] == 31)) {
				continue
			}
			a := obj{"i": i + 1, "d": d}
			pa, _ := try(func() {
				s, _ := safeSolar(d[0], d[1], d[2], 12, 0, 0)
				l := s.GetLunar()
				a["ds"] = l.GetDayNineStar().GetIndex()
				a["ys"] = []int{l.GetYearNineStarBySect(1).GetIndex(), l.GetYearNineStarBySect(2).GetIndex(), l.GetYearNineStarBySect(3).GetIndex(), l.GetYearNineStar().GetIndex()}
				a["ms"] = []int{l.GetMonthNineStarBySect(1).GetIndex(), l.GetMonthNineStarBySect(2).GetIndex(), l.GetMonthNineStarBySect(3).GetIndex(), l.GetMonthNineStar().GetIndex()}
			})
			a["p"] = b2i(pa)
			again = append(again, a)
		}
		f["again"] = again
		// hour stars: 12 slots (hours 0,1,3,...,21) on seeded days and around the solstices
		hs := []obj{}
		hday := func(yy, m, d int) {
			for _, h := range []int{0, 1, 2, 3, 5, 7, 9, 11, 13, 15, 17, 19, 21, 22} {
				s, pp := safeSolar(yy, m, d, h, 30, 0)
				if pp || s.GetYear() != y {
					continue
				}
				o := obj{"at": sol(s)}
				p2, _ := try(func() {
					l := s.GetLunar()
					o["ts"] = l.GetTimeNineStar().GetIndex()
					o["ts2"] = l.GetTime().GetNineStar().GetIndex()
					o["dz"] = l.GetDayZhiIndex()
					o["tz"] = l.GetTimeZhiIndex()
				})
				o["p"] = b2i(p2)
				hs = append(hs, o)
			}
		}
		for _, pos := range []int{1, 13, 25} { // 冬至 (previous), 夏至, DONG_ZHI
			row := tab[pos]
			if len(row) == 7 {
				t, pp := safeSolar(row[1].(int), row[2].(int), row[3].(int), 12, 0, 0)
				if !pp {
					for dd := -1; dd <= 1; dd++ {
						n := t.NextDay(dd)
						hday(n.GetYear(), n.GetMonth(), n.GetDay())
					}
				}
			}
		}
		for k := 0; k < 8; k++ {
			hday(y, 1+c.rng.Intn(12), 1+c.rng.Intn(28))
		}
		hday(y, 12, 25)
		hday(y, 12, 31)
		hday(y, 1, 1)
		f["hs"] = hs
		// instant-level conventions around each Jie instant of the year
		js := []obj{}
		for i, row := range tab {
			if len(row) < 7 || i%2 == 1 {
				continue
			}
			ty, tm, td := row[1].(int), row[2].(int), row[3].(int)
			if ty != y {
				continue
			}
			sod := row[4].(int)*3600 + row[5].(int)*60 + row[6].(int)
			for _, ds := range []int{-1, 0, 1} {
				if sod+ds < 0 || sod+ds > 86399 {
					continue
				}
				h, mi, se := hms(sod + ds)
				s, pp := safeSolar(ty, tm, td, h, mi, se)
				if pp {
					continue
				}
				o := obj{"at": sol(s), "pos": i + 1, "ds": ds}
				p2, _ := try(func() {
					l := s.GetLunar()
					o["y3"] = l.GetYearNineStarBySect(3).GetIndex()
					o["m3"] = l.GetMonthNineStarBySect(3).GetIndex()
				})
				o["p"] = b2i(p2)
				js = append(js, o)
			}
		}
		f["js"] = js
		c.emit(f)
	}
}

func c17Years(c *ctx) {
	years := c.yearsFor(c13Boundary, c.argInt("years", 150), 1, 9998)
	for _, y := range years {
		if !c.mine(y) {
			continue
		}
		f := obj{"ev": "C17Year", "y": y}
		rows := []obj{}
		k := 0
		everyDay(y, func(s0 *calendar.Solar, extra bool) {
			if extra {
				return
			}
			k++
			h, mi, se := hms([]int{0, 43200, 82800, 86399}[k%4])
			if k%9 == 0 {
				h, mi, se = hms(c.rng.Intn(86400))
			}
			s, _ := safeSolar(s0.GetYear(), s0.GetMonth(), s0.GetDay(), h, mi, se)
			row := obj{"c": sol(s)}
			pp, _ := try(func() {
				l := s.GetLunar()
				row["l"] = lun(l)[:3]
				row["dgz"] = []int{l.GetDayGanIndex(), l.GetDayZhiIndex()}
				row["jq"] = l.GetJieQi()
				t := l.GetTao()
				fo := l.GetFoto()
				row["t"] = []int{t.GetYear(), t.GetMonth(), t.GetDay()}
				row["f"] = []int{fo.GetYear(), fo.GetMonth(), fo.GetDay()}
				mcount := 0
				if lm := calendar.NewLunarMonthFromYm(l.GetYear(), l.GetMonth()); lm != nil {
					mcount = lm.GetDayCount()
				}
				row["mc"] = mcount
			})
			row["p"] = b2i(pp)
			if pp {
				rows = append(rows, row)
				return
			}
			l := s.GetLunar()
			// the day classes depend on the lunar month and day, the day pillar and the day's term only: on every other
			// day the chart convention of the same lunar object is switched first, which must change none of them
			row["s1"] = b2i(k%2 == 0)
			if k%2 == 0 {
				try(func() { l.GetEightChar().SetSect(1) })
			}
			// round trips through the constructors
			pr, _ := try(func() {
				t := l.GetTao()
				t2 := calendar.NewTao(t.GetYear(), t.GetMonth(), t.GetDay(), h, mi, se)
				row["tr"] = append([]int{t2.GetYear(), t2.GetMonth(), t2.GetDay()}, sol(t2.GetLunar().GetSolar())...)
				fo := l.GetFoto()
				f2 := calendar.NewFoto(fo.GetYear(), fo.GetMonth(), fo.GetDay(), h, mi, se)
				row["fr"] = append([]int{f2.GetYear(), f2.GetMonth(), f2.GetDay()}, sol(f2.GetLunar().GetSolar())...)
			})
			row["pr"] = b2i(pr)
			// predicates, each guarded so that one panic does not hide the others
			preds := []int{}
			t := l.GetTao()
			fo := l.GetFoto()
			for _, fn := range []func() bool{t.IsDaySanHui, t.IsDaySanYuan, t.IsDayWuLa, t.IsDayBaJie, t.IsDayBaHui, t.IsDayMingWu, t.IsDayAnWu, t.IsDayWu,
				fo.IsMonthZhai, fo.IsDayYangGong, fo.IsDayZhaiShuoWang, fo.IsDayZhaiSix, fo.IsDayZhaiTen, fo.IsDayZhaiGuanYin} {
				v := 2
				try(func() { v = b2i(fn()) })
				preds = append(preds, v)
			}
			row["pred"] = preds
			try(func() {
				row["xiu"] = fo.GetXiu()
				row["nf"] = []int{t.GetFestivals().Len(), fo.GetFestivals().Len(), fo.GetOtherFestivals().Len()}
			})
			rows = append(rows, row)
		})
		f["rows"] = rows
		c.emit(f)
	}
}

func init() {
	cmds["c13years"] = c13Years
	cmds["c16years"] = c16Years
	cmds["c17years"] = c17Years
}
