package main

import (
	"bufio"
	"fmt"
	"os"

	"github.com/6tail/lunar-go/calendar"
)

// lunar edge replay: every line "op n py pm pd ey em ed ecnt ejdn" is one
// transition of TLC's state graph of MC_Lunar (with the model's successor
// state); it is executed on real LunarMonth / Lunar objects.
func lunarEdges(c *ctx) {
	f, err := os.Open(c.arg("edges", "edges.tsv"))
	if err != nil {
		fmt.Fprintln(os.Stderr, err)
		os.Exit(2)
	}
	defer f.Close()
	sc := bufio.NewScanner(f)
	i := 0
	for sc.Scan() {
		i++
		if !c.mine(i) {
			continue
		}
		var op string
		var n, py, pm, pd, ey, em, ed, ecnt, ejdn int
		if k, _ := fmt.Sscan(sc.Text(), &op, &n, &py, &pm, &pd, &ey, &em, &ed, &ecnt, &ejdn); k != 10 {
			fmt.Fprintln(os.Stderr, "bad edge line:", sc.Text())
			os.Exit(2)
		}
		e := obj{"ev": "LunarEdge", "op": op, "n": n, "from": []int{py, pm, pd}, "exp": []int{ey, em, ed, ecnt, ejdn}}
		switch op {
		case "MonthNext":
			var r *calendar.LunarMonth
			p, _ := try(func() { r = calendar.NewLunarMonthFromYm(py, pm).Next(n) })
			if p || r == nil {
				e["p"] = 1
				e["res"] = []int{}
			} else {
				e["p"] = 0
				e["res"] = mo(r)[:4]
			}
		case "DayNext":
			var a, b *calendar.Lunar
			p, _ := try(func() {
				from := calendar.NewLunar(py, pm, pd, 12, 0, 0)
				a = from.Next(n)
				b = from.GetSolar().NextDay(n).GetLunar()
			})
			if p {
				e["p"] = 1
				e["res"] = []int{}
			} else {
				e["p"] = 0
				j, _, _ := projJD(a.GetSolar().GetJulianDay())
				e["res"] = append(append(lun(a)[:3], j), lun(b)[:3]...)
			}
		}
		c.emit(e)
	}
}

func init() { cmds["lunaredges"] = lunarEdges }
