package main

import (
	"container/list"
	"math"

	"github.com/6tail/lunar-go/calendar"
)

var c06Boundary = []int{1, 2, 3, 7, 8, 9, 15, 16, 18, 19, 22, 23, 24, 25, 37, 56, 75, 94, 235, 236, 237, 238, 239, 240, 241, 242, 1574, 1575, 1582, 1640, 1642, 1643, 1644, 1645, 1928, 1929, 2017, 2020, 2023, 2033, 2034, 2035, 2128, 2129, 2262, 3358, 3359, 9992, 9996, 9997}

// mo projects a LunarMonth: [year, month, dayCount, jdn of first day, index, residue flag]
func mo(m *calendar.LunarMonth) []int {
	if m == nil {
		return []int{}
	}
	f := m.GetFirstJulianDay()
	j := math.Floor(f + 0.5)
	frac := 0
	if f != j { // the library publishes the first day as noon JD = an integer; anything else is logged
		frac = 1
	}
	return []int{m.GetYear(), m.GetMonth(), m.GetDayCount(), int(j), m.GetIndex(), frac}
}

func moList(l *list.List) [][]int {
	o := [][]int{}
	for i := l.Front(); i != nil; i = i.Next() {
		o = append(o, mo(i.Value.(*calendar.LunarMonth)))
	}
	return o
}

func yearTable(y int) [][]int { return moList(calendar.NewLunarYear(y).GetMonths()) }

func c06Years(c *ctx) {
	years := c.yearsFor(c06Boundary, c.argInt("years", 300), 1, 9997)
	ns := []int{0, 1, -1, 2, -2, 12, -12, 13, -13, 14, -14, 25, -25, 40, -40}
	for _, y := range years {
		if !c.mine(y) {
			continue
		}
		f := obj{"ev": "C06Year", "y": y}
		p, _ := try(func() {
			ly := calendar.NewLunarYear(y)
			f["t"] = moList(ly.GetMonths())
			f["leap"] = ly.GetLeapMonth()
			f["days"] = ly.GetDayCount()
			f["inyear"] = moList(ly.GetMonthsInYear())
			gm := [][]int{}
			for m := -12; m <= 12; m++ {
				if m == 0 {
					continue
				}
				x := ly.GetMonth(m)
				y2 := calendar.NewLunarMonthFromYm(y, m)
				row := []int{m, b2i(x == nil), b2i(y2 == nil)}
				if x != nil {
					row = append(row, mo(x)...)
				}
				if y2 != nil {
					row = append(row, mo(y2)...)
				}
				gm = append(gm, row)
			}
			f["get"] = gm
			f["t2"] = moList(ly.GetMonths())
			// extension (outside C06): the year-level accessors of the lunar-year object
			f["yr"] = []string{ly.GetYuan(), ly.GetYun(), ly.GetGanZhi(), ly.GetTouLiang(), ly.GetCaoZi(), ly.GetGengTian(), ly.GetHuaShou(), ly.GetZhiShui(),
				ly.GetTuoGu(), ly.GetQiangMi(), ly.GetKanCan(), ly.GetGongZhu(), ly.GetJiaTian(), ly.GetFenBing(), ly.GetDeJin(), ly.GetRenBing(), ly.GetRenChu()}
			f["tn"] = yearTable(y + 1)
			if y > 1 {
				f["tp"] = yearTable(y - 1)
			} else {
				f["tp"] = [][]int{}
			}
		})
		f["p"] = b2i(p)
		if p {
			c.emit(f)
			continue
		}
		// month navigation from every in-year month
		inyear := f["inyear"].([][]int)
		nav := []obj{}
		for k, m0 := range inyear {
			start := calendar.NewLunarMonthFromYm(m0[0], m0[1])
			if start == nil {
				continue
			}
			rows := [][]int{}
			wide := c.tier == "thorough" || k%4 == y%4
			nsAll := ns
			if y%10 == 0 && k%13 == y%13 {
				// one start month of every tenth year also moves by a Metonic cycle and two (235, 470 months), each
				// compared with the same move made one month at a time
				nsAll = append(append([]int{}, ns...), 235, -235, 470, -470)
				if y > 2600 {
					nsAll = append(nsAll, -30000)
				}
				if y < 7300 {
					nsAll = append(nsAll, 30000)
				}
			}
			for _, n := range nsAll {
				if !wide && (n > 13 || n < -13 || n == 12 || n == -12) && n < 200 && n > -200 {
					continue
				}
				if y+n/12-1 < 1 || y+n/12+1 > 9997 {
					continue
				}
				var r, back *calendar.LunarMonth
				pp, _ := try(func() {
					r = start.Next(n)
					if r != nil {
						back = r.Next(-n)
					}
				})
				row := []int{n, b2i(pp), b2i(r == nil), b2i(back == nil)}
				if r != nil {
					row = append(row, mo(r)[:4]...)
				} else {
					row = append(row, 0, 0, 0, 0)
				}
				if back != nil {
					row = append(row, mo(back)[:4]...)
				} else {
					row = append(row, 0, 0, 0, 0)
				}
				// the same move made one month at a time (every third start month, all |n| <= 40)
				deep := c.tier == "thorough" || y%10 == 0
				if (k%13 == y%13 || (deep && k%3 == y%3)) && n != 0 && r != nil && (deep || n <= 14 && n >= -14) {
					it := start
					pp2, _ := try(func() {
						step := 1
						if n < 0 {
							step = -1
						}
						if n > 5000 || n < -5000 {
							// thousands of months: the same move in two halves (each far shorter) instead of one by one
							it = it.Next(n / 2)
							if it != nil {
								it = it.Next(n - n/2)
							}
							return
						}
						for i := 0; i != n && it != nil; i += step {
							it = it.Next(step)
						}
					})
					if pp2 || it == nil {
						row = append(row, 1, 0, 0, 0, 0)
					} else {
						row = append(row, append([]int{0}, mo(it)[:4]...)...)
					}
				}
				rows = append(rows, row)
			}
			nav = append(nav, obj{"from": m0[:4], "r": rows})
		}
		f["nav"] = nav
		// New Year's Eve is followed by day 1 of month 1 of the next year
		if len(inyear) > 0 {
			last := inyear[len(inyear)-1]
			var nx *calendar.Lunar
			var fest []string
			pp, _ := try(func() {
				l := calendar.NewLunar(last[0], last[1], last[2], 12, 0, 0)
				nx = l.Next(1)
				fest = strList(l.GetFestivals())
			})
			if pp {
				f["eve"] = obj{"p": 1}
			} else {
				f["eve"] = obj{"p": 0, "last": []int{last[0], last[1], last[2]}, "next": lun(nx)[:3], "fest": fest}
			}
		}
		c.emit(f)
	}
}

// c06 pairs: the structural clauses for EVERY lunar year (cheap): a year's table and its successor's
func c06Pairs(c *ctx) {
	for y := 1; y <= 9997; y++ {
		if !c.mine(y) {
			continue
		}
		f := obj{"ev": "C06Pair", "y": y}
		p, _ := try(func() {
			ly := calendar.NewLunarYear(y)
			f["t"] = moList(ly.GetMonths())
			f["leap"] = ly.GetLeapMonth()
			f["days"] = ly.GetDayCount()
			f["tn"] = yearTable(y + 1)
		})
		f["p"] = b2i(p)
		c.emit(f)
	}
}

func init() {
	cmds["c06years"] = c06Years
	cmds["c06pairs"] = c06Pairs
}
