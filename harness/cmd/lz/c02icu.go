package main

import (
	"bufio"
	"fmt"
	"math"
	"os"

	"github.com/6tail/lunar-go/calendar"
)

// c02icu: the library's civil -> lunar conversion next to ICU's Chinese calendar for every civil day the
// ICU dump covers (file written by harness/icu/icudump: "gy gm gd ly lm leap ld")
func c02Icu(c *ctx) {
	f, err := os.Open(c.arg("icu", "icu.tsv"))
	if err != nil {
		fmt.Fprintln(os.Stderr, err)
		os.Exit(2)
	}
	defer f.Close()
	sc := bufio.NewScanner(f)
	cur := -1
	var rows [][]int
	flush := func() {
		if cur < 0 || len(rows) == 0 || !c.mine(cur) {
			rows = nil
			return
		}
		fr := obj{"ev": "C02Icu", "y": cur, "rows": rows}
		try(func() {
			ly := calendar.NewLunarYear(cur)
			nm := [][]int{}
			for _, r := range moList(ly.GetMonths()) {
				j := float64(r[3])
				nm = append(nm, []int{r[3], int(math.Round(libElongDeg(j-0.5) * 1e6)), int(math.Round(libElongDeg(j+0.5) * 1e6))})
			}
			fr["nm"] = nm
			terms := [][]int{}
			for _, v := range ly.GetJieQiJulianDays() {
				j, ms := projMs(v)
				sod := ms / 1000
				near := sod
				if 86400-sod < near {
					near = 86400 - sod
				}
				terms = append(terms, []int{j, near})
			}
			fr["terms"] = terms
		})
		c.emit(fr)
		rows = nil
	}
	for sc.Scan() {
		var gy, gm, gd, ly, lm, leap, ld int
		if k, _ := fmt.Sscan(sc.Text(), &gy, &gm, &gd, &ly, &lm, &leap, &ld); k != 7 {
			continue
		}
		if gy != cur {
			flush()
			cur = gy
		}
		if leap == 1 {
			lm = -lm
		}
		s, bad := safeSolar(gy, gm, gd, 12, 0, 0)
		if bad {
			continue
		}
		row := []int{gy, gm, gd, ly, lm, ld}
		p, _ := try(func() {
			l := s.GetLunar()
			j, _, _ := projJD(s.GetJulianDay())
			row = append(row, l.GetYear(), l.GetMonth(), l.GetDay(), j)
		})
		if p {
			row = append(row, 0, 0, 0, 0)
		}
		rows = append(rows, row)
	}
	flush()
}

func init() { cmds["c02icu"] = c02Icu }
