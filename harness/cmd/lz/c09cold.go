package main

import (
	"fmt"

	"github.com/6tail/lunar-go/HolidayUtil"
	"github.com/6tail/lunar-go/calendar"
)

// c09 cold start: "whatever calls were made before" includes none at all.  Shard i makes call i the very first
// library call of its process, then makes every call again (warm); the trace holds both digests.

func coldCall(id int) (d string, pan bool) {
	pan, msg := try(func() {
		switch id {
		case 0:
			d = lunarDigest(calendar.NewLunar(0, 11, 18, 5, 6, 7))
		case 1:
			d = yearDigest(calendar.NewLunarYear(0))
		case 2:
			d = fmt.Sprint(mo(calendar.NewLunarMonthFromYm(0, 11)))
		case 3:
			s, _ := safeSolar(1, 1, 1, 0, 0, 0)
			d = lunarDigest(s.GetLunar())
		case 4:
			d = yearDigest(calendar.NewLunarYear(2033))
		case 5:
			d = lunarDigest(calendar.NewLunar(2033, -11, 1, 12, 0, 0))
		case 6:
			s, _ := safeSolar(2024, 2, 10, 23, 30, 0)
			d = s.GetLunar().GetEightChar().String() + "|" + digest(s.GetLunar().GetEightChar(), nil)
		case 7:
			d = callRender(HolidayUtil.GetHoliday("2020-01-01")) + "|" + callRender(HolidayUtil.GetHolidaysByTarget("2020-10-01"))
		case 8:
			d = callRender(calendar.ListSolarFromBaZi("甲辰", "丙寅", "甲辰", "甲子"))
		case 9:
			d = yearDigest(calendar.NewLunarYear(9998))
		case 10:
			d = calendar.NewSolarFromJulianDay(2460000.5).ToYmdHms()
		case 11:
			d = fmt.Sprint(mo(calendar.NewLunarMonthFromYm(2020, 12).Next(3)))
		case 12:
			s, _ := safeSolar(9998, 12, 31, 23, 59, 59)
			d = lunarDigest(s.GetLunar())
		case 13:
			d = digest(calendar.NewSolarWeekFromYmd(1582, 10, 15, 1), nil)
		case 14:
			d = callRender(calendar.NewLunarYear(1).GetMonths())
		case 15:
			d = digest(calendar.NewTao(4721, 1, 1, 0, 0, 0), nil) + digest(calendar.NewFoto(2568, 1, 1, 0, 0, 0), nil)
		case 16:
			// the observances of a day of a regular month whose number a leap month of the year before repeats
			l := calendar.NewLunar(2021, 4, 8, 12, 0, 0)
			d = callRender(l.GetFoto().GetFestivals()) + callRender(l.GetFoto().GetOtherFestivals()) + callRender(l.GetTao().GetFestivals()) +
				callRender(l.GetFestivals()) + callRender(l.GetOtherFestivals())
		case 17:
			l := calendar.NewLunar(2020, -4, 8, 12, 0, 0)
			d = callRender(l.GetFoto().GetFestivals()) + callRender(l.GetFoto().GetOtherFestivals()) + callRender(l.GetTao().GetFestivals()) +
				callRender(l.GetFestivals()) + callRender(l.GetOtherFestivals())
		}
	})
	if pan {
		d = "PANIC " + msg
	}
	return
}

const nCold = 18

func c09Cold(c *ctx) {
	first := c.shard % nCold
	cd, cp := coldCall(first) // the first library call of this process
	rows := [][]interface{}{}
	// every other call first, then the same call again: now it is anything but the first one
	for k := 1; k <= nCold; k++ {
		id := (first + k) % nCold
		wd, wp := coldCall(id)
		if id == first {
			rows = append(rows, []interface{}{id, cd, wd, b2i(cp), b2i(wp)})
		}
	}
	// everything once more in reverse order: the second warm pass against the first
	for id := nCold - 1; id >= 0; id-- {
		wd, wp := coldCall(id)
		w2, p2 := coldCall(id)
		rows = append(rows, []interface{}{id, wd, w2, b2i(wp), b2i(p2)})
	}
	c.emit(obj{"ev": "C09Hist", "seq": []interface{}{"cold-start", first}, "calls": rows, "lockfree": b2i(calendar.VerifLockFree())})
}

func init() { cmds["c09cold"] = c09Cold }
