package main

import (
	"bufio"
	"fmt"
	"os"
	"sort"
	"strings"

	"github.com/6tail/lunar-go/calendar"
)

// momentsFor: boundary-heavy moments (after the December solstice, 23:00-23:59, Jie instants, year ends) + seeded ones
func momentsFor(c *ctx, n int) [][6]int {
	ms := [][6]int{}
	add := func(y, m, d, sod int) {
		if sod < 0 || sod > 86399 {
			return
		}
		h, mi, se := hms(sod)
		if _, bad := safeSolar(y, m, d, h, mi, se); !bad {
			ms = append(ms, [6]int{y, m, d, h, mi, se})
		}
	}
	for _, y := range []int{2, 16, 1582, 1900, 2000, 2020, 2023, 2024, 2033, 2034, 9990} {
		s0, _ := safeSolar(y, 6, 15, 12, 0, 0)
		for i, row := range termTable(s0.GetLunar()) {
			if len(row) < 7 || row[1].(int) != y {
				continue
			}
			sod := row[4].(int)*3600 + row[5].(int)*60 + row[6].(int)
			if i%2 == 0 || i == 13 || i == 25 {
				for _, ds := range []int{0, -1, 1} {
					add(y, row[2].(int), row[3].(int), sod+ds)
				}
				add(y, row[2].(int), row[3].(int), 1800)
				add(y, row[2].(int), row[3].(int), 84600)
			}
		}
		for d := 20; d <= 31; d++ {
			add(y, 12, d, 9*3600+1800)
			add(y, 12, d, 84600)
		}
		add(y, 1, 1, 0)
		add(y, 2, 29, 43200)
	}
	// days on which the library's own tables are out of their usual alignment (derived from the code, not listed):
	// a major term falling in a lunar month other than the one it normally belongs to (1 344 in the range, most of
	// them before 1645), and the days of the AD 9-23 reform whose lunar year runs ahead of the civil year
	for k, d := range oddTermDays() {
		add(d[0], d[1], d[2], 12*3600+1800)
		if k%5 == 0 {
			add(d[0], d[1], d[2], 84600)
			add(d[0], d[1], d[2], 1800)
		}
	}
	// the first weeks of the range still belong to lunar year 0
	for _, d := range [][3]int{{1, 1, 1}, {1, 1, 20}, {1, 2, 11}, {1, 2, 12}, {9998, 12, 31}} {
		add(d[0], d[1], d[2], 43200)
		add(d[0], d[1], d[2], 84600)
	}
	for _, d := range yearAheadDays() {
		add(d[0], d[1], d[2], 43200)
		add(d[0], d[1], d[2], 84600)
	}
	n += len(ms)
	for len(ms) < n {
		y := 1 + c.rng.Intn(9990)
		if c.rng.Intn(3) > 0 {
			y = 1900 + c.rng.Intn(200)
		}
		sod := c.rng.Intn(86400)
		switch c.rng.Intn(5) {
		case 0:
			sod = 82800 + c.rng.Intn(3600)
		case 1:
			sod = c.rng.Intn(3600)
		}
		m, d := 1+c.rng.Intn(12), 1+c.rng.Intn(31)
		if c.rng.Intn(6) == 0 {
			m, d = 12, 20+c.rng.Intn(12)
		}
		add(y, m, d, sod)
	}
	return ms
}

// oddTermDays: the civil days of major terms (zhongqi) that fall in a lunar month other than month k for the k-th one
func oddTermDays() [][3]int {
	out := [][3]int{}
	for y := 1; y <= 9998; y++ {
		try(func() {
			jds := calendar.NewLunarYear(y).GetJieQiJulianDays()
			for i := 1; i < len(jds) && i <= 25; i += 2 {
				s := calendar.NewSolarFromJulianDay(jds[i])
				mo := s.GetLunar().GetMonth()
				if mo < 0 {
					mo = -mo
				}
				if mo != (11+(i-1)/2-1)%12+1 && s.GetYear() >= 1 && s.GetYear() <= 9998 {
					out = append(out, [3]int{s.GetYear(), s.GetMonth(), s.GetDay()})
				}
			}
		})
	}
	return out
}

// yearAheadDays: civil days whose lunar year number is larger than the civil year (only possible in the reform eras)
func yearAheadDays() [][3]int {
	out := [][3]int{}
	for _, r := range [][2]int{{7, 25}, {235, 241}} {
		for y := r[0]; y <= r[1]; y++ {
			everyDay(y, func(s *calendar.Solar, extra bool) {
				if extra {
					return
				}
				try(func() {
					if s.GetLunar().GetYear() > s.GetYear() {
						out = append(out, [3]int{s.GetYear(), s.GetMonth(), s.GetDay()})
					}
				})
			})
		}
	}
	return out
}

func readLines(path string) []string {
	f, err := os.Open(path)
	if err != nil {
		fmt.Fprintln(os.Stderr, err)
		os.Exit(2)
	}
	defer f.Close()
	out := []string{}
	sc := bufio.NewScanner(f)
	sc.Buffer(make([]byte, 1<<20), 1<<24)
	for sc.Scan() {
		if t := strings.TrimSpace(sc.Text()); t != "" {
			out = append(out, t)
		}
	}
	return out
}

type fdGroup struct {
	vals map[string]bool
	wit  []string
}

// c11: alternative routes. The accessor expressions to evaluate come from the specification
// (file written by vcheck from Almanac.tla's Equiv / FD tables): one expression per line.
func c11Moments(c *ctx) {
	exprs := []string{}
	if c.arg("exprs", "") != "" {
		exprs = readLines(c.arg("exprs", ""))
	}
	fdspec := readLines(c.arg("fd", "fd.txt")) // "attr|valueExpr|keyExpr;keyExpr;..."
	ms := momentsFor(c, c.argInt("moments", 4000))
	groups := map[string]*fdGroup{}
	for i, m := range ms {
		if !c.mine(i) {
			continue
		}
		s, _ := safeSolar(m[0], m[1], m[2], m[3], m[4], m[5])
		// every other moment keeps ONE lunar object and chart for both conventions (read everything under 2, switch the
		// same chart to 1, read everything again): "the current convention" must be what every accessor uses
		var shared *calendar.Lunar
		if i%2 == 0 {
			try(func() { shared = s.GetLunar() })
		}
		sects := []int{2, 1}
		if m[3] == 23 && i%2 == 1 {
			// a convention argument outside {1, 2}: whatever the chart makes of it, every attribute it reports must
			// still be the attribute of the pillars it reports (dependence groups only; a refusal is not an observation)
			sects = append(sects, []int{3, 0, -1}[(i/2)%3])
		}
		for _, sect := range sects {
			extra := sect != 1 && sect != 2
			f := obj{"ev": "C11Moment", "at": m[:], "sect": sect}
			p, _ := try(func() {
				l := shared
				if l == nil {
					l = s.GetLunar()
				}
				ec := l.GetEightChar()
				ec.SetSect(sect)
				objs := map[string]interface{}{"Solar": s, "Lunar": l, "LunarTime": l.GetTime(), "EightChar": ec,
					"LunarYear": calendar.NewLunarYear(l.GetYear()), "LunarMonth": calendar.NewLunarMonthFromYm(l.GetYear(), l.GetMonth()),
					"Yun1": ec.GetYun(1), "Yun1s1": ec.GetYunBySect(1, 1), "Yun0": ec.GetYun(0), "Yun0s1": ec.GetYunBySect(0, 1)}
				v := map[string]string{}
				pn := []string{}
				for _, ex := range exprs {
					r, pp := callByName(objs, ex)
					v[ex] = r
					if pp {
						pn = append(pn, ex)
					}
				}
				f["v"] = v
				f["panics"] = pn
				// the hour object of this date's two-hour slot taken from the day's list, against the date's own
				if i%3 == 0 {
					tl := l.GetTimes()
					idx := (m[3] + 1) / 2
					skip := map[string]bool{"GetLunar": true, "String": true, "ToFullString": true}
					if idx < len(tl) {
						f["tms"] = []string{digest(tl[idx], skip), digest(l.GetTime(), skip)}
					}
					// and an entry on the other side of 23:00, against the hour object of the same lunar day built at that hour
					j, hj := 12, 23
					if m[3] == 23 {
						j, hj = 1+i%11, 0
						hj = 2*j - 1
					}
					if j < len(tl) {
						f["tms2"] = []string{digest(tl[j], skip), digest(calendar.NewLunar(l.GetYear(), l.GetMonth(), l.GetDay(), hj, 0, 0).GetTime(), skip)}
					}
				}
				// the three reverse-lookup entry points agree (default school 2, default base 1900)
				pz := []string{ec.GetYear(), ec.GetMonth(), ec.GetDay(), ec.GetTime()}
				if sect == 2 && m[0] >= 1900 && m[0] <= 2030 && i%7 == 0 {
					a := render1(calendar.ListSolarFromBaZi(pz[0], pz[1], pz[2], pz[3]))
					b := render1(calendar.ListSolarFromBaZiBySect(pz[0], pz[1], pz[2], pz[3], 2))
					d := render1(calendar.ListSolarFromBaZiBySectAndBaseYear(pz[0], pz[1], pz[2], pz[3], 2, 1900))
					f["bazi"] = []string{a, b, d}
				}
				for _, line := range fdspec {
					parts := strings.Split(line, "|")
					val, _ := callByName(objs, parts[1])
					keys := []string{}
					for _, k := range strings.Split(parts[2], ";") {
						kv, _ := callByName(objs, k)
						keys = append(keys, kv)
					}
					gk := parts[0] + "|" + strings.Join(keys, ",")
					g := groups[gk]
					if g == nil {
						g = &fdGroup{vals: map[string]bool{}}
						groups[gk] = g
					}
					if !g.vals[val] {
						g.vals[val] = true
						if len(g.wit) < 4 {
							g.wit = append(g.wit, fmt.Sprintf("%v/sect%d=%s", m, sect, val))
						}
					}
				}
			})
			f["p"] = b2i(p)
			if extra {
				continue
			}
			if c.arg("nomoments", "") == "" || p {
				c.emit(f)
			}
		}
	}
	gks := []string{}
	for k := range groups {
		gks = append(gks, k)
	}
	sort.Strings(gks)
	batch := []obj{}
	for _, k := range gks {
		g := groups[k]
		vals := []string{}
		for v := range g.vals {
			vals = append(vals, v)
		}
		sort.Strings(vals)
		i := strings.Index(k, "|")
		batch = append(batch, obj{"attr": k[:i], "key": k[i+1:], "vals": vals, "w": g.wit})
		if len(batch) == 400 {
			c.emit(obj{"ev": "FDGroups", "prop": c.arg("prop", "C11"), "g": batch})
			batch = []obj{}
		}
	}
	if len(batch) > 0 {
		c.emit(obj{"ev": "FDGroups", "prop": c.arg("prop", "C11"), "g": batch})
	}
}

func render1(x interface{}) string {
	return callRender(x)
}

func init() { cmds["c11moments"] = c11Moments }
