package main

var c19Boundary = []int{1, 2, 9, 10, 15, 16, 23, 24, 99, 100, 239, 240, 999, 1000, 1582, 2033, 2034, 7302, 7303, 9998, 9999}

// c19: printed forms of every day of a civil year: civil timestamps as code
// points, lunar / Taoist / Buddhist renderings as rune sequences next to the numbers
func c19Years(c *ctx) {
	years := c.yearsFor(c19Boundary, c.argInt("years", 80), 1, 9999)
	for _, y := range years {
		if !c.mine(y) {
			continue
		}
		rows := []obj{}
		for m := 1; m <= 12; m++ {
			for d := 1; d <= 31; d++ {
				h, mi, se := hms(c.rng.Intn(86400))
				if d%7 == 0 {
					h, mi, se = []int{0, 23, 9, 10}[c.rng.Intn(4)], []int{0, 59, 9}[c.rng.Intn(3)], []int{0, 59, 5}[c.rng.Intn(3)]
				}
				s, p := safeSolar(y, m, d, h, mi, se)
				if p {
					continue
				}
				row := obj{"c": sol(s), "ymd": codepoints(s.ToYmd()), "hms": codepoints(s.ToYmdHms()), "str": codepoints(s.String())}
				// a stepped date prints like a constructed one: back to hour 0 of the day before (hour + n = -24)
				if !(y == 1 && m == 1 && d == 1) {
					try(func() { row["nh"] = codepoints(s.NextHour(-(h + 24)).ToYmdHms()) })
				}
				pp, _ := try(func() {
					l := s.GetLunar()
					row["l"] = []int{l.GetYear(), l.GetMonth(), l.GetDay()}
					row["ls"] = runes(l.String())
					t := l.GetTao()
					row["t"] = []int{t.GetYear(), t.GetMonth(), t.GetDay()}
					row["ts"] = runes(t.String())
					f := l.GetFoto()
					row["f"] = []int{f.GetYear(), f.GetMonth(), f.GetDay()}
					row["fs"] = runes(f.String())
				})
				row["p"] = b2i(pp)
				rows = append(rows, row)
			}
		}
		// what the last two months of the year before print: distinct dates must print differently across the year end too
		pre := []obj{}
		if y > 1 {
			for m := 11; m <= 12; m++ {
				for d := 1; d <= 31; d++ {
					s, p := safeSolar(y-1, m, d, 12, 0, 0)
					if p {
						continue
					}
					try(func() {
						l := s.GetLunar()
						pre = append(pre, obj{"ls": runes(l.String()), "ts": runes(l.GetTao().String()), "fs": runes(l.GetFoto().String())})
					})
				}
			}
		}
		c.emit(obj{"ev": "C19Year", "y": y, "rows": rows, "pre": pre})
	}
}

func init() { cmds["c19years"] = c19Years }
