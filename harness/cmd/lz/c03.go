package main

import (
	"fmt"
	"math"
	"verif/harness/ephem"

	"github.com/6tail/lunar-go/ShouXingUtil"
	"github.com/6tail/lunar-go/calendar"
)

var c03Boundary = []int{1, 2, 3, 15, 16, 18, 19, 100, 1000, 1582, 1583, 1645, 1900, 2000, 2020, 2023, 2024, 3000, 3439, 4886, 9997, 9998}

// instant of a float JD (UTC+8) as (jdn, millisecond of day)
func projMs(jd float64) (int, int) {
	t := jd + 0.5
	j := math.Floor(t)
	ms := math.Round((t - j) * 86400000)
	ji, mi := int(j), int(ms)
	if mi >= 86400000 {
		mi -= 86400000
		ji++
	}
	return ji, mi
}

func wrapDiffDeg(a, target float64) float64 {
	d := math.Mod(a-target, 360)
	if d > 180 {
		d -= 360
	}
	if d < -180 {
		d += 360
	}
	return d
}

// libSunLonDeg: the library's own apparent solar longitude at a UTC+8 Julian Day
func libSunLonDeg(jd float64) float64 {
	d := jd - calendar.J2000 - 1.0/3 // days from J2000, UT
	td := d + ShouXingUtil.DtT(d)    // dynamical time
	return ShouXingUtil.VerifSaLon(td/36525) * 180 / math.Pi
}

func jqObj(j *calendar.JieQi) []interface{} {
	if j == nil {
		return []interface{}{}
	}
	s := j.GetSolar()
	return []interface{}{j.GetName(), s.GetYear(), s.GetMonth(), s.GetDay(), s.GetHour(), s.GetMinute(), s.GetSecond(), b2i(j.IsJie()), b2i(j.IsQi())}
}

func c03Query(l *calendar.Lunar) obj {
	q := obj{"at": sol(l.GetSolar())}
	p, _ := try(func() {
		q["pj"] = jqObj(l.GetPrevJie())
		q["nj"] = jqObj(l.GetNextJie())
		q["pq"] = jqObj(l.GetPrevQi())
		q["nq"] = jqObj(l.GetNextQi())
		q["pa"] = jqObj(l.GetPrevJieQi())
		q["na"] = jqObj(l.GetNextJieQi())
		q["pjw"] = jqObj(l.GetPrevJieByWholeDay(true))
		q["njw"] = jqObj(l.GetNextJieByWholeDay(true))
		q["pqw"] = jqObj(l.GetPrevQiByWholeDay(true))
		q["nqw"] = jqObj(l.GetNextQiByWholeDay(true))
		q["paw"] = jqObj(l.GetPrevJieQiByWholeDay(true))
		q["naw"] = jqObj(l.GetNextJieQiByWholeDay(true))
		q["name"] = []string{l.GetJieQi(), l.GetJie(), l.GetQi()}
		q["cur"] = []interface{}{jqObj(l.GetCurrentJieQi()), jqObj(l.GetCurrentJie()), jqObj(l.GetCurrentQi())}
	})
	q["p"] = b2i(p)
	return q
}

// perturb makes unrelated calls for neighbouring years between the observed calls, so that a result
// that depends on what was converted before (a stale table, a cache keyed wrongly) shows up in the frame
func perturb(c *ctx, y int) {
	try(func() {
		switch c.rng.Intn(4) {
		case 0:
			if y < 9998 {
				s, _ := safeSolar(y+1, 1, 5+c.rng.Intn(20), 1, 2, 3)
				s.GetLunar()
			}
		case 1:
			if y > 1 {
				s, _ := safeSolar(y-1, 12, 5+c.rng.Intn(20), 1, 2, 3)
				s.GetLunar()
			}
		case 2:
			calendar.NewLunarYear(y + 1)
		default:
			calendar.NewLunarFromYmd(y, 1, 1)
		}
	})
}

// termEdgeYears scans every year 1..9998 (cheap: one table per year) and returns the civil years that hold a
// term instant within maxSec seconds of midnight: there the day assignment of a term, and everything keyed on
// it, hangs on seconds. Boundary inputs derived from the code under test itself, not hard-coded.
func termEdgeYears(maxSec int, jieOnly bool) []int {
	out := []int{}
	for y := 1; y <= 9998; y++ {
		hit := false
		try(func() {
			for k, v := range calendar.NewLunarYear(y).GetJieQiJulianDays()[2:26] {
				if jieOnly && k%2 != 0 {
					continue
				}
				_, ms := projMs(v)
				s := ms / 1000
				if s < maxSec || 86400-s <= maxSec {
					hit = true
				}
			}
		})
		if hit {
			out = append(out, y)
		}
	}
	return out
}

func c03Years(c *ctx) {
	years := c.yearsFor(append(append([]int{}, c03Boundary...), termEdgeYears(c.argInt("edge", 10), false)...), c.argInt("years", 200), 1, 9998)
	nrand := c.argInt("rand", 20)
	for _, y := range years {
		if !c.mine(y) {
			continue
		}
		f := obj{"ev": "C03Year", "y": y}
		var jds []float64
		var l0 *calendar.Lunar
		p, _ := try(func() {
			held := calendar.NewLunarYear(y)
			jds = append([]float64{}, held.GetJieQiJulianDays()...)
			perturb(c, y)
			// the year object the caller still holds, read again after tables of other years were built in between
			calendar.NewLunarYear(y + 1 + c.rng.Intn(7))
			h2 := [][]int{}
			for _, v := range held.GetJieQiJulianDays() {
				j, ms := projMs(v)
				h2 = append(h2, []int{j, ms})
			}
			f["jdheld"] = h2
			s, _ := safeSolar(y, 6, 15, 12, 0, 0)
			l0 = s.GetLunar()
		})
		f["p"] = b2i(p)
		if p {
			c.emit(f)
			continue
		}
		jd := [][]int{}
		lon := [][]int{}
		for i, v := range jds {
			j, ms := projMs(v)
			jd = append(jd, []int{j, ms})
			target := math.Mod(255+15*float64(i), 360)
			// the library's own longitude one second before / after the reported instant (nano-degrees from the target)
			lo := wrapDiffDeg(libSunLonDeg(v-1.0/86400), target)
			hi := wrapDiffDeg(libSunLonDeg(v+1.0/86400), target)
			// independent ephemeris: Meeus low-accuracy Sun with Espenak-Meeus Delta-T (micro-degrees from the target)
			yr := 2000 + (v-2451545.0)/365.2425
			dtInd := ephem.DeltaT(yr)
			dtLib := ShouXingUtil.DtT(v-calendar.J2000) * 86400
			ind := wrapDiffDeg(ephem.SunApparentLongitude(v-8.0/24+dtInd/86400), target)
			lon = append(lon, []int{int(math.Round(lo * 1e9)), int(math.Round(hi * 1e9)), int(math.Round(ind * 1e6)), int(math.Round(math.Abs(dtInd - dtLib)))})
		}
		f["jd"] = jd
		f["lon"] = lon
		// the table as the Lunar object publishes it
		tab := [][]interface{}{}
		tbl := l0.GetJieQiTable()
		for i := l0.GetJieQiList().Front(); i != nil; i = i.Next() {
			k := i.Value.(string)
			s := tbl[k]
			if s == nil {
				tab = append(tab, []interface{}{k})
			} else {
				tab = append(tab, []interface{}{k, s.GetYear(), s.GetMonth(), s.GetDay(), s.GetHour(), s.GetMinute(), s.GetSecond()})
			}
		}
		f["tab"] = tab
		f["tablen"] = len(tbl)
		// next year's table (shared entries)
		nx := [][]int{}
		try(func() {
			for _, v := range calendar.NewLunarYear(y + 1).GetJieQiJulianDays() {
				j, ms := projMs(v)
				nx = append(nx, []int{j, ms})
			}
		})
		f["nx"] = nx
		// query moments inside civil year y
		qs := []obj{}
		seen := map[[6]int]bool{}
		add := func(s *calendar.Solar) {
			if s == nil || s.GetYear() != y {
				return
			}
			k := [6]int{s.GetYear(), s.GetMonth(), s.GetDay(), s.GetHour(), s.GetMinute(), s.GetSecond()}
			if seen[k] {
				return
			}
			seen[k] = true
			var l *calendar.Lunar
			if len(qs)%9 == 4 {
				perturb(c, y)
			}
			var tb2 []string
			pp, _ := try(func() {
				l = s.GetLunar()
				if len(qs)%3 == 2 {
					// the same lunar date built from its own numbers: the term queries are asked of that object
					l0 := l
					l = calendar.NewLunar(l.GetYear(), l.GetMonth(), l.GetDay(), s.GetHour(), s.GetMinute(), s.GetSecond())
					tb2 = []string{sha12(fmt.Sprint(termTable(l))), sha12(fmt.Sprint(termTable(l0)))}
				}
			})
			if pp {
				qs = append(qs, obj{"at": sol(s), "p": 1})
				return
			}
			qo := c03Query(l)
			if tb2 != nil {
				qo["tb2"] = tb2
			}
			qs = append(qs, qo)
		}
		for _, row := range tab {
			if len(row) < 7 {
				continue
			}
			ty, tm, td, th, tmi, ts := row[1].(int), row[2].(int), row[3].(int), row[4].(int), row[5].(int), row[6].(int)
			t, pp := safeSolar(ty, tm, td, th, tmi, ts)
			if pp {
				continue
			}
			add(t)
			// one second before and after (through the Julian Day so that no stepping code is involved)
			for _, ds := range []int{-1, 1} {
				sod := th*3600 + tmi*60 + ts + ds
				if sod >= 0 && sod < 86400 {
					h, mi, se := hms(sod)
					x, _ := safeSolar(ty, tm, td, h, mi, se)
					add(x)
				}
			}
			x, _ := safeSolar(ty, tm, td, 0, 0, 0)
			add(x)
			x, _ = safeSolar(ty, tm, td, 23, 59, 59)
			add(x)
			if sod := th*3600 + tmi*60 + ts; c.rng.Intn(3) == 0 || sod < 60 || sod >= 86340 {
				add(t.NextDay(-1))
				add(t.NextDay(1))
				if sod < 60 || sod >= 86340 {
					// a term at (nearly) midnight: the days either side at noon and at their last second
					for _, dd := range []int{-1, 1} {
						nd := t.NextDay(dd)
						x, _ := safeSolar(nd.GetYear(), nd.GetMonth(), nd.GetDay(), 12, 0, 0)
						add(x)
						x, _ = safeSolar(nd.GetYear(), nd.GetMonth(), nd.GetDay(), 23, 59, 59)
						add(x)
					}
				}
			}
		}
		for k := 0; k < nrand; k++ {
			h, mi, se := hms(c.rng.Intn(86400))
			x, _ := safeSolar(y, 1+c.rng.Intn(12), 1+c.rng.Intn(31), h, mi, se)
			add(x)
		}
		for _, md := range [][2]int{{1, 1}, {12, 31}} {
			x, _ := safeSolar(y, md[0], md[1], 0, 0, 0)
			add(x)
			x, _ = safeSolar(y, md[0], md[1], 23, 59, 59)
			add(x)
		}
		f["q"] = qs
		c.emit(f)
	}
}

func init() { cmds["c03years"] = c03Years }
