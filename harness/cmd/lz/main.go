// lz: drivers and replayers that bind the TLA+ specifications in /verif/spec
// to the real lunar-go code.  lz never compares results: it drives the API,
// projects results to integers / strings and writes NDJSON that TLC judges.
package main

import (
	"bufio"
	"encoding/json"
	"flag"
	"fmt"
	"math"
	"math/rand"
	"os"
	"sort"
	"strings"
	"time"
	_ "time/tzdata" // the zones the shards run under do not depend on the machine

	"github.com/6tail/lunar-go/calendar"
)

type obj map[string]interface{}

type ctx struct {
	tier   string
	seed   int64
	shard  int
	nshard int
	out    *bufio.Writer
	outF   *os.File
	rng    *rand.Rand
	lines  int
	args   map[string]string
	// chunking
	header   func()
	inHeader bool
	// stateful traces (chains): the driver calls rotateIfDue at the start of a chain, so that a chain
	// never straddles two chunk files (the trace specification's state starts afresh in every chunk)
	manualRotate bool
	chunkStart   int
	outBase      string
	chunk        int
	maxLines     int
}

func (c *ctx) emit(v interface{}) {
	if c.maxLines > 0 && !c.manualRotate && c.lines-c.chunkStart >= c.maxLines && !c.inHeader {
		c.rotate()
	}
	b, err := json.Marshal(v)
	if err != nil {
		fmt.Fprintln(os.Stderr, "marshal:", err)
		os.Exit(2)
	}
	c.out.Write(b)
	c.out.WriteByte('\n')
	c.lines++
}

func (c *ctx) open() {
	name := fmt.Sprintf("%s.%03d.ndjson", c.outBase, c.chunk)
	f, err := os.Create(name)
	if err != nil {
		fmt.Fprintln(os.Stderr, err)
		os.Exit(2)
	}
	c.outF = f
	c.out = bufio.NewWriterSize(f, 1<<20)
	if c.header != nil {
		// chunk-local context (rule tables etc.) is repeated at the head of every chunk
		c.inHeader = true
		c.header()
		c.inHeader = false
	}
}

func (c *ctx) rotate() {
	c.close()
	c.chunk++
	c.chunkStart = c.lines
	c.open()
}

func (c *ctx) rotateIfDue() {
	if c.maxLines > 0 && c.lines-c.chunkStart >= c.maxLines {
		c.rotate()
	}
}

func (c *ctx) close() {
	c.out.Flush()
	c.outF.Close()
}

func (c *ctx) arg(k, def string) string {
	if v, ok := c.args[k]; ok {
		return v
	}
	return def
}

func (c *ctx) argInt(k string, def int) int {
	if v, ok := c.args[k]; ok {
		n := 0
		fmt.Sscanf(v, "%d", &n)
		return n
	}
	return def
}

// try runs f and reports whether it panicked.
func try(f func()) (panicked bool, msg string) {
	defer func() {
		if r := recover(); r != nil {
			panicked = true
			msg = fmt.Sprint(r)
			// In a single-goroutine driver nobody else can hold the year-cache lock: if it is held after a recovered
			// panic it was leaked by the call that panicked, and every later call would block for ever.
			if singleThreaded && !calendar.VerifLockFree() {
				fmt.Fprintln(os.Stderr, "LZ-LOCK-LEAKED: a call panicked with the year-cache lock held ("+msg+"); driver gives up")
				os.Exit(3)
			}
		}
	}()
	f()
	return false, ""
}

// singleThreaded: false in the drivers that run library calls on several goroutines (they have their own watchdogs)
var singleThreaded = true

// mine reports whether item i belongs to this shard.
func (c *ctx) mine(i int) bool { return ((i%c.nshard)+c.nshard)%c.nshard == c.shard }

// yearsFor returns the sorted set of years for a tier: always the boundary
// years, plus n seeded years (quick) or every year lo..hi (thorough).
func (c *ctx) yearsFor(boundary []int, nQuick int, lo, hi int) []int {
	set := map[int]bool{}
	for _, y := range boundary {
		if y >= lo && y <= hi {
			set[y] = true
		}
	}
	// years the library itself treats as special: the ends of its tables of years with a leap 11th / 12th month
	// (and the year after each, whose table must agree), plus two seeded entries of each table
	rt := rand.New(rand.NewSource(c.seed*104729 + 5))
	for _, tab := range [][]int{calendar.LEAP_11, calendar.LEAP_12} {
		pick := []int{}
		if n := len(tab); n > 0 {
			pick = append(pick, tab[0], tab[n-1], tab[rt.Intn(n)], tab[rt.Intn(n)])
			if n > 1 {
				pick = append(pick, tab[n-2])
			}
		}
		for _, y := range pick {
			for _, z := range []int{y, y + 1} {
				if z >= lo && z <= hi {
					set[z] = true
				}
			}
		}
	}
	// century years of the Julian era that are leap years there and not in the proleptic Gregorian calendar (where a
	// helper written for modern dates goes wrong): the first, the last and two seeded ones
	jc := []int{100, 200, 300, 500, 600, 700, 900, 1000, 1100, 1300, 1400, 1500}
	for _, y := range []int{jc[0], jc[len(jc)-1], jc[rt.Intn(len(jc))], jc[rt.Intn(len(jc))]} {
		if y >= lo && y <= hi {
			set[y] = true
		}
	}
	if c.tier == "thorough" {
		for y := lo; y <= hi; y++ {
			set[y] = true
		}
	} else {
		// stratified: a quarter of the seeded years from each era of the library's algorithms (tabulated mean
		// motions before 619, tabulated corrections to 1644, the ephemeris series from 1645, the far future)
		r := rand.New(rand.NewSource(c.seed*7919 + 17))
		cuts := []int{lo, 619, 1645, 3001, hi + 1}
		strata := [][2]int{}
		for i := 0; i+1 < len(cuts); i++ {
			a, b := cuts[i], cuts[i+1]-1
			if a < lo {
				a = lo
			}
			if b > hi {
				b = hi
			}
			if a <= b {
				strata = append(strata, [2]int{a, b})
			}
		}
		want := nQuick + len(set)
		for k := 0; len(set) < want && len(set) < hi-lo+1 && k < 100*want; k++ {
			st := strata[k%len(strata)]
			set[st[0]+r.Intn(st[1]-st[0]+1)] = true
		}
	}
	ys := make([]int, 0, len(set))
	for y := range set {
		ys = append(ys, y)
	}
	sort.Ints(ys)
	return ys
}

// projJD projects a float Julian Day to (jdn, second of day, residue in microseconds).
func projJD(jd float64) (int, int, int) {
	t := jd + 0.5
	j := math.Floor(t)
	fs := (t - j) * 86400
	s := math.Round(fs)
	us := int(math.Round((fs - s) * 1e6))
	ji, si := int(j), int(s)
	if si >= 86400 {
		si -= 86400
		ji++
	}
	return ji, si, us
}

func runes(s string) []string {
	r := []rune(s)
	o := make([]string, len(r))
	for i, x := range r {
		o[i] = string(x)
	}
	return o
}

func codepoints(s string) []int {
	r := []rune(s)
	o := make([]int, len(r))
	for i, x := range r {
		o[i] = int(x)
	}
	return o
}

var cmds = map[string]func(*ctx){}

func main() {
	if len(os.Args) < 2 {
		names := []string{}
		for k := range cmds {
			names = append(names, k)
		}
		sort.Strings(names)
		fmt.Fprintln(os.Stderr, "usage: lz <cmd> [flags]; cmds:", strings.Join(names, " "))
		os.Exit(2)
	}
	cmd := os.Args[1]
	fs := flag.NewFlagSet(cmd, flag.ExitOnError)
	tier := fs.String("tier", "quick", "quick|thorough")
	seed := fs.Int64("seed", 1, "seed")
	shard := fs.String("shard", "0/1", "i/n")
	out := fs.String("out", "trace", "output base name (chunks: <out>.NNN.ndjson)")
	maxLines := fs.Int("maxlines", 20000, "lines per chunk")
	extra := fs.String("a", "", "extra k=v,k=v arguments")
	fs.Parse(os.Args[2:])
	c := &ctx{tier: *tier, seed: *seed, outBase: *out, maxLines: *maxLines, args: map[string]string{}}
	fmt.Sscanf(*shard, "%d/%d", &c.shard, &c.nshard)
	if c.nshard < 1 {
		c.nshard = 1
	}
	for _, kv := range strings.Split(*extra, ",") {
		if i := strings.Index(kv, "="); i > 0 {
			c.args[kv[:i]] = kv[i+1:]
		}
	}
	c.rng = rand.New(rand.NewSource(*seed*1000003 + int64(c.shard)))
	f, ok := cmds[cmd]
	if !ok {
		fmt.Fprintln(os.Stderr, "unknown command", cmd)
		os.Exit(2)
	}
	c.open()
	// A call that returns (or panics and is recovered) with the library's year-cache lock held blocks every later
	// call for ever.  That is C09's business (c09total / c09sched report it as an observation); every other driver
	// just must not hang for an hour.  try() notices the panicking case at once (see singleThreaded); the fallback
	// here fires only when nothing was emitted for 20 minutes AND the lock is never seen free during a whole second
	// of continuous polling (a busy lock is released thousands of times a second, a leaked one never).
	go func() {
		last, since := -1, time.Now()
		for {
			time.Sleep(30 * time.Second)
			if c.lines != last {
				last, since = c.lines, time.Now()
				continue
			}
			if time.Since(since) < 20*time.Minute {
				continue
			}
			free := false
			for t0 := time.Now(); time.Since(t0) < time.Second && !free; {
				free = calendar.VerifLockFree()
			}
			if !free {
				fmt.Fprintln(os.Stderr, "LZ-LOCK-STUCK: no event for 20 minutes and the year-cache lock is never free; driver gives up")
				os.Exit(3)
			}
			since = time.Now()
		}
	}()
	f(c)
	c.close()
	fmt.Printf("LZ-DONE cmd=%s shard=%d/%d lines=%d chunks=%d\n", cmd, c.shard, c.nshard, c.lines, c.chunk+1)
}
