package main

import "os"

var os_Stderr = os.Stderr

func osReadFile(p string) ([]byte, error) { return os.ReadFile(p) }
func osExit(c int)                        { os.Exit(c) }
