package main

import (
	"container/list"
	"crypto/sha1"
	"fmt"
	"reflect"
	"sort"
	"strings"

	"github.com/6tail/lunar-go/calendar"
)

// render turns a returned value into a canonical string (no comparisons here:
// the strings / their hashes are what the specification compares).
func render(v reflect.Value, depth int) string {
	if !v.IsValid() {
		return "<invalid>"
	}
	switch v.Kind() {
	case reflect.Int, reflect.Int64, reflect.Int32:
		return fmt.Sprint(v.Int())
	case reflect.Bool:
		return fmt.Sprint(v.Bool())
	case reflect.String:
		return v.String()
	case reflect.Float64, reflect.Float32:
		return fmt.Sprintf("%.9f", v.Float())
	case reflect.Slice, reflect.Array:
		parts := []string{}
		for i := 0; i < v.Len(); i++ {
			parts = append(parts, render(v.Index(i), depth+1))
		}
		return "[" + strings.Join(parts, ",") + "]"
	case reflect.Map:
		keys := v.MapKeys()
		ks := []string{}
		m := map[string]string{}
		for _, k := range keys {
			s := render(k, depth+1)
			ks = append(ks, s)
			m[s] = render(v.MapIndex(k), depth+1)
		}
		sort.Strings(ks)
		parts := []string{}
		for _, k := range ks {
			parts = append(parts, k+":"+m[k])
		}
		return "{" + strings.Join(parts, ",") + "}"
	case reflect.Ptr, reflect.Interface:
		if v.IsNil() {
			return "<nil>"
		}
		switch x := v.Interface().(type) {
		case *list.List:
			parts := []string{}
			for i := x.Front(); i != nil; i = i.Next() {
				parts = append(parts, render(reflect.ValueOf(i.Value), depth+1))
			}
			return "(" + strings.Join(parts, ",") + ")"
		case *calendar.Solar:
			return x.ToYmdHms()
		case *calendar.JieQi:
			return x.GetName() + "@" + x.GetSolar().ToYmdHms()
		case *calendar.Lunar:
			return x.String() + "@" + x.GetSolar().ToYmdHms()
		case *calendar.EightChar:
			return fmt.Sprintf("%s/sect%d", x.String(), x.GetSect())
		}
		if m := v.MethodByName("ToFullString"); m.IsValid() && m.Type().NumIn() == 0 {
			return m.Call(nil)[0].String()
		}
		if s, ok := v.Interface().(fmt.Stringer); ok {
			return s.String()
		}
		if v.Kind() == reflect.Interface {
			return render(v.Elem(), depth+1)
		}
		if v.Elem().Kind() == reflect.Struct {
			// a library object that does not print itself (DaYun, LiuNian, ...): its scalar accessors, never its
			// fields (they hold pointers, whose addresses differ from run to run)
			t := v.Type()
			parts := []string{}
			for i := 0; i < t.NumMethod(); i++ {
				mt := t.Method(i)
				if mt.Type.NumIn() != 1 || mt.Type.NumOut() != 1 || strings.HasPrefix(mt.Name, "Set") {
					continue
				}
				switch mt.Type.Out(0).Kind() {
				case reflect.Int, reflect.String, reflect.Bool:
					func() {
						defer func() {
							if e := recover(); e != nil {
								parts = append(parts, mt.Name+"=PANIC")
							}
						}()
						parts = append(parts, mt.Name+"="+render(v.Method(i).Call(nil)[0], depth+1))
					}()
				}
			}
			return t.Elem().Name() + "{" + strings.Join(parts, ",") + "}"
		}
		return fmt.Sprintf("%v", v.Elem().Interface())
	}
	return fmt.Sprintf("%v", v.Interface())
}

type accRes struct {
	name   string
	panic  bool
	msg    string
	val    reflect.Value
	render string
}

// callZeroArg calls every exported zero-argument method (value-returning, not a setter).
func callZeroArg(obj interface{}, skip map[string]bool) []accRes {
	v := reflect.ValueOf(obj)
	t := v.Type()
	out := []accRes{}
	for i := 0; i < t.NumMethod(); i++ {
		m := t.Method(i)
		if m.Type.NumIn() != 1 || m.Type.NumOut() < 1 || strings.HasPrefix(m.Name, "Set") || (skip != nil && skip[m.Name]) {
			continue
		}
		r := accRes{name: m.Name}
		func() {
			defer func() {
				if e := recover(); e != nil {
					r.panic = true
					r.msg = fmt.Sprint(e)
				}
			}()
			res := v.Method(i).Call(nil)
			r.val = res[0]
			r.render = render(res[0], 0)
		}()
		out = append(out, r)
	}
	return out
}

// digest of all zero-argument getters of an object
func digest(obj interface{}, skip map[string]bool) string {
	h := sha1.New()
	for _, r := range callZeroArg(obj, skip) {
		if r.panic {
			fmt.Fprintf(h, "%s=PANIC(%s);", r.name, r.msg)
		} else {
			fmt.Fprintf(h, "%s=%s;", r.name, r.render)
		}
	}
	return fmt.Sprintf("%x", h.Sum(nil))[:16]
}

// firstDiff names the first getter on which two objects differ (diagnostic only, logged next to the digests)
func firstDiff(a, b interface{}, skip map[string]bool) string {
	ra := callZeroArg(a, skip)
	rb := callZeroArg(b, skip)
	for i := range ra {
		if i < len(rb) && (ra[i].render != rb[i].render || ra[i].panic != rb[i].panic) {
			return ra[i].name
		}
	}
	return ""
}

// callZeroArgRotated calls every zero-argument getter starting at a rotated position and returns an
// order-independent digest (sorted by method name)
func callZeroArgRotated(obj interface{}, rot int) string {
	v := reflect.ValueOf(obj)
	t := v.Type()
	n := t.NumMethod()
	parts := make([]string, 0, n)
	for k := 0; k < n; k++ {
		i := (k + rot) % n
		m := t.Method(i)
		if m.Type.NumOut() < 1 || strings.HasPrefix(m.Name, "Set") {
			continue
		}
		// zero-argument accessors, and methods whose parameters are all int / bool (first argument tuple of pureArgs)
		var args []reflect.Value
		if m.Type.NumIn() != 1 {
			tuples := pureArgs(v.Method(i).Type())
			if len(tuples) == 0 {
				continue
			}
			args = tuples[0]
		}
		func() {
			defer func() {
				if e := recover(); e != nil {
					parts = append(parts, m.Name+"=PANIC")
				}
			}()
			res := v.Method(i).Call(args)
			parts = append(parts, m.Name+"="+render(res[0], 0))
		}()
	}
	sort.Strings(parts)
	h := sha1.New()
	for _, p := range parts {
		fmt.Fprint(h, p, ";")
	}
	return fmt.Sprintf("%x", h.Sum(nil))[:12]
}

func callRender(x interface{}) string { return render(reflect.ValueOf(x), 0) }
