package main

import (
	"math"
	"verif/harness/ephem"

	"github.com/6tail/lunar-go/ShouXingUtil"
	"github.com/6tail/lunar-go/calendar"
)

// the library's own moon-sun elongation (degrees, wrapped to (-180,180]) at a UTC+8 Julian Day
func libElongDeg(jd float64) float64 {
	d := jd - calendar.J2000 - 1.0/3
	td := d + ShouXingUtil.DtT(d)
	e := ShouXingUtil.VerifMsaLon(td/36525) * 180 / math.Pi
	return wrapDiffDeg(e, 0)
}

// c02: one frame per lunar year: month table, major-term days, new-moon evidence for every month start
func c02Years(c *ctx) {
	lo, hi := 1645, 3000
	for y := lo; y <= hi; y++ {
		if !c.mine(y) {
			continue
		}
		f := obj{"ev": "C02Year", "y": y}
		p, _ := try(func() {
			ly := calendar.NewLunarYear(y)
			// the accessors first: they report on the table, they must not edit it
			f["leap"] = ly.GetLeapMonth()
			f["inyear"] = ly.GetMonthsInYear().Len()
			ly.GetDayCount()
			t := moList(ly.GetMonths())
			f["t"] = t
			// the head of next year's table: the months both tables contain must be the same months
			f["tn"] = yearTable(y + 1)[:4]
			// and this year's table again, recomputed right after the next year's
			f["t3"] = yearTable(y)
			// days (UTC+8) of the 31 terms of the table, and how close each instant is to midnight (seconds)
			terms := [][]int{}
			for _, v := range ly.GetJieQiJulianDays() {
				j, ms := projMs(v)
				sod := ms / 1000
				near := sod
				if 86400-sod < near {
					near = 86400 - sod
				}
				terms = append(terms, []int{j, sod, near})
			}
			f["terms"] = terms
			nm := [][]int{}
			for _, r := range t {
				j := float64(r[3])         // noon JD of the first day = its JDN
				e0 := libElongDeg(j - 0.5) // 00:00 of the first day
				e1 := libElongDeg(j + 0.5) // 00:00 of the next day
				// independent new moon (Meeus ch. 49) nearest to the first day, as a UTC+8 instant
				k := ephem.NearestNewMoonK(j)
				jde := ephem.NewMoonJDE(k)
				yr := 2000 + (jde-2451545.0)/365.2425
				dtInd := ephem.DeltaT(yr)
				dtLib := ShouXingUtil.DtT(jde-calendar.J2000) * 86400
				jdLocal := jde - dtInd/86400 + 8.0/24
				ij, ims := projMs(jdLocal)
				nm = append(nm, []int{int(math.Round(e0 * 1e6)), int(math.Round(e1 * 1e6)), ij, ims / 1000, int(math.Round(math.Abs(dtInd - dtLib)))})
			}
			f["nm"] = nm
		})
		f["p"] = b2i(p)
		c.emit(f)
	}
}

func init() { cmds["c02years"] = c02Years }
