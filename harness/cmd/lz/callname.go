package main

import (
	"fmt"
	"reflect"
	"strconv"
	"strings"
)

// callByName evaluates "Obj.Method(arg,...)" (int arguments only) on the named objects and renders the result.
func callByName(objs map[string]interface{}, expr string) (out string, panicked bool) {
	defer func() {
		if e := recover(); e != nil {
			out = fmt.Sprint("PANIC:", e)
			panicked = true
		}
	}()
	dot := strings.Index(expr, ".")
	on, rest := expr[:dot], expr[dot+1:]
	name := rest
	args := []reflect.Value{}
	if i := strings.Index(rest, "("); i >= 0 {
		name = rest[:i]
		for _, a := range strings.Split(strings.TrimSuffix(rest[i+1:], ")"), ",") {
			a = strings.TrimSpace(a)
			if a == "" {
				continue
			}
			n, err := strconv.Atoi(a)
			if err != nil {
				panic("bad argument in " + expr)
			}
			args = append(args, reflect.ValueOf(n))
		}
	}
	o, ok := objs[on]
	if !ok || o == nil {
		panic("no object " + on)
	}
	m := reflect.ValueOf(o).MethodByName(name)
	if !m.IsValid() {
		panic("no method " + expr)
	}
	for i := range args {
		if i < m.Type().NumIn() && m.Type().In(i).Kind() == reflect.Bool {
			args[i] = reflect.ValueOf(args[i].Int() != 0)
		}
	}
	res := m.Call(args)
	return render(res[0], 0), false
}
