package main

import (
	"fmt"
	"reflect"
	"strings"

	"github.com/6tail/lunar-go/HolidayUtil"
	"github.com/6tail/lunar-go/calendar"
)

// c09 sessions: the sessions TLC enumerates from MC_Session (Create / Handle / SetSect / Fix / Rename / Bad / Write) are executed
// on real objects; after every call every live object is observed in full.  Nothing is compared here.

var sessInst = [][6]int{{2031, 5, 2, 10, 0, 0}, {2024, 2, 10, 23, 30, 0}, {1582, 10, 4, 23, 10, 0}}
var sessDates = []int{20310502, 20200101}

// fix-up record k (1-based); record k touches day sessDates[(k-1)%2]
func sessFix(k int) string {
	switch k {
	case 1:
		return seg(20310502, 3, false, 20310501)
	case 2:
		return seg(20200101, 0, true, 20200101)
	case 3:
		return seg(20310502, 3, true, 20310501)
	default:
		return segRemove(20200101)
	}
}

// the two lists of festival names: the built-in one and one with two entries reworded
func sessNames(v int) []string {
	ns := append([]string{}, HolidayUtil.NAMES...)
	if v == 1 {
		ns[0] = ns[0] + "(改)"
		ns[3] = "五一"
	}
	return ns
}

func sessLunar(t int) *calendar.Lunar {
	i := sessInst[t-1]
	s, _ := safeSolar(i[0], i[1], i[2], i[3], i[4], i[5])
	return s.GetLunar()
}

func holObs(day int) string {
	h := HolidayUtil.GetHoliday(fmt.Sprint(day))
	if h == nil {
		return "none"
	}
	return fmt.Sprintf("%s|%s|%v|%s", h.GetDay(), h.GetName(), h.IsWork(), h.GetTarget())
}

func c09Sessions(c *ctx) {
	path := c.arg("sessions", "")
	b, err := osReadFile(path)
	if err != nil {
		fmt.Fprintln(os_Stderr, err)
		osExit(2)
	}
	lines := strings.Split(strings.TrimSpace(string(b)), "\n")
	nFix := 4
	// reference observations: one fresh object per abstract state, taken before any session
	ref := obj{"ev": "SessRef", "instDate": []int{1, 0, 0}, "fixDate": []int{1, 2, 1, 2}}
	lunar, chart, solar := [][][]string{}, [][][]string{}, [][]string{}
	for t := 1; t <= len(sessInst); t++ {
		lt, ct := [][]string{}, [][]string{}
		st := []string{}
		for sect := 1; sect <= 2; sect++ {
			ls, cs := []string{}, []string{}
			for hk := 0; hk <= nFix; hk++ {
				HolidayUtil.VerifReset()
				if hk > 0 {
					HolidayUtil.Fix(nil, sessFix(hk))
				}
				l := sessLunar(t)
				l.GetEightChar().SetSect(sect)
				ls = append(ls, digest(l, nil))
				cs = append(cs, digest(l.GetEightChar(), nil))
				if sect == 1 {
					st = append(st, digest(l.GetSolar(), nil))
				}
			}
			lt = append(lt, ls)
			ct = append(ct, cs)
		}
		lunar = append(lunar, lt)
		chart = append(chart, ct)
		solar = append(solar, st)
	}
	hol := [][][]string{}
	for _, d := range sessDates {
		row := [][]string{}
		for k := 0; k <= nFix; k++ {
			byNames := []string{}
			for v := 0; v <= 1; v++ {
				HolidayUtil.VerifReset()
				if v > 0 {
					HolidayUtil.Fix(sessNames(v), "")
				}
				if k > 0 {
					HolidayUtil.Fix(nil, sessFix(k))
				}
				byNames = append(byNames, holObs(d))
			}
			row = append(row, byNames)
		}
		hol = append(hol, row)
	}
	HolidayUtil.VerifReset()
	ref["lunar"], ref["chart"], ref["solar"], ref["hol"] = lunar, chart, solar, hol
	c.header = func() { c.emit(ref) }
	c.manualRotate = true
	c.emit(ref)
	for sid, ln := range lines {
		if !c.mine(sid) || ln == "" {
			continue
		}
		c.rotateIfDue() // a session never straddles two chunks
		HolidayUtil.VerifReset()
		objs := make([]*calendar.Lunar, 2)
		hands := make([]*calendar.EightChar, 2)
		c.emit(obj{"ev": "SessStart", "sid": sid})
		for i, as := range strings.Split(ln, "|") {
			f := strings.Split(as, ":")
			x, y := atoi(f[1]), atoi(f[2])
			p, _ := try(func() {
				switch f[0] {
				case "Create":
					objs[x-1] = sessLunar(y)
				case "Handle":
					hands[x-1] = objs[y-1].GetEightChar()
				case "SetSect":
					hands[x-1].SetSect(y)
				case "Fix":
					HolidayUtil.Fix(nil, sessFix(x))
				case "Rename":
					HolidayUtil.Fix(sessNames(x), "")
				case "Write":
					scribbleExcept(objs[x-1], false, reflect.TypeOf(&calendar.EightChar{}))
				case "Bad":
					if x == 1 {
						calendar.NewSolar(2023, 2, 30, 0, 0, 0)
					} else {
						calendar.NewLunar(2021, 13, 1, 0, 0, 0)
					}
				}
			})
			ol, os, oc, oh := []string{}, []string{}, []string{}, []string{}
			for _, o := range objs {
				if o == nil {
					ol, os = append(ol, ""), append(os, "")
				} else {
					ol, os = append(ol, digest(o, nil)), append(os, digest(o.GetSolar(), nil))
				}
			}
			for _, h := range hands {
				if h == nil {
					oc = append(oc, "")
				} else {
					oc = append(oc, digest(h, nil))
				}
			}
			for _, d := range sessDates {
				oh = append(oh, holObs(d))
			}
			var a []interface{}
			a = append(a, f[0], x, y)
			c.emit(obj{"ev": "SessStep", "sid": sid, "i": i + 1, "a": a, "p": b2i(p),
				"obs": obj{"lunar": ol, "solar": os, "chart": oc, "hol": oh}})
		}
	}
	HolidayUtil.VerifReset()
}

func init() { cmds["c09sessions"] = c09Sessions }
