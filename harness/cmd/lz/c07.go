package main

import (
	"github.com/6tail/lunar-go/calendar"
)

var c07Boundary = []int{1, 2, 4, 8, 15, 16, 18, 19, 23, 24, 100, 236, 237, 239, 240, 1500, 1582, 1583, 1600, 1900, 2000, 2020, 2033, 2034, 2100, 9997, 9998}

func lun(l *calendar.Lunar) []int {
	return []int{l.GetYear(), l.GetMonth(), l.GetDay(), l.GetHour(), l.GetMinute(), l.GetSecond()}
}

// image of the civil days around lunar year y: (ly, lm, ld) of every civil day from (y-1)-11-01 to (y+1)-03-15
func lunarImage(y int) [][]int {
	img := [][]int{}
	for _, ym := range [][2]int{{y - 1, 11}, {y - 1, 12}, {y, 1}, {y, 2}, {y, 3}, {y, 4}, {y, 5}, {y, 6}, {y, 7}, {y, 8}, {y, 9}, {y, 10}, {y, 11}, {y, 12}, {y + 1, 1}, {y + 1, 2}, {y + 1, 3}} {
		if ym[0] < 1 || ym[0] > 9999 {
			continue
		}
		last := 31
		if ym[0] == y+1 && ym[1] == 3 {
			last = 15
		}
		for d := 1; d <= last; d++ {
			s, p := safeSolar(ym[0], ym[1], d, 12, 0, 0)
			if p {
				continue
			}
			var l *calendar.Lunar
			pp, _ := try(func() { l = s.GetLunar() })
			if pp {
				img = append(img, []int{ym[0], ym[1], d, 1, 0, 0, 0})
			} else {
				img = append(img, []int{ym[0], ym[1], d, 0, l.GetYear(), l.GetMonth(), l.GetDay()})
			}
		}
	}
	return img
}

func c07Civil(c *ctx) {
	years := c.yearsFor(c07Boundary, c.argInt("years", 60), 1, 9998)
	hs := []int{-1, 0, 23, 24, 25}
	ms := []int{-1, 0, 59, 60, 61}
	for _, y := range years {
		if !c.mine(y) {
			continue
		}
		for m := -1; m <= 14; m++ {
			o := []int{}
			for d := -1; d <= 33; d++ {
				_, p := safeSolar(y, m, d, 0, 0, 0)
				o = append(o, b2i(p))
			}
			c.emit(obj{"ev": "C07Civil", "y": y, "m": m, "o": o})
		}
		// time fields, on two valid dates
		for _, md := range [][2]int{{1 + c.rng.Intn(12), 1 + c.rng.Intn(28)}, {12, 31}} {
			t := [][]int{}
			for _, h := range hs {
				for _, mi := range ms {
					for _, se := range ms {
						s, p := safeSolar(y, md[0], md[1], h, mi, se)
						row := []int{h, mi, se, b2i(p)}
						if !p {
							row = append(row, sol(s)...)
						}
						t = append(t, row)
					}
				}
			}
			c.emit(obj{"ev": "C07Time", "y": y, "m": md[0], "d": md[1], "t": t})
		}
	}
}

func c07Lunar(c *ctx) {
	years := c.yearsFor(c07Boundary, c.argInt("years", 60), 1, 9998)
	for _, y := range years {
		if !c.mine(y) {
			continue
		}
		f := obj{"ev": "C07Lunar", "y": y, "img": lunarImage(y)}
		rows := func(mk func(m, d int)) [][]int {
			o := [][]int{}
			for m := -12; m <= 13; m++ {
				row := []int{}
				for d := 0; d <= 31; d++ {
					p, _ := try(func() { mk(m, d) })
					row = append(row, b2i(p))
				}
				o = append(o, row)
			}
			return o
		}
		f["lunar"] = rows(func(m, d int) { calendar.NewLunar(y, m, d, 0, 0, 0) })
		f["tao"] = rows(func(m, d int) { calendar.NewTao(y+2697, m, d, 0, 0, 0) })
		f["foto"] = rows(func(m, d int) { calendar.NewFoto(y+544, m, d, 0, 0, 0) })
		// constructed objects report the numbers given and land on the civil day of the image
		got := [][]int{}
		for m := -12; m <= 13; m++ {
			for _, d := range []int{1, 15, 29, 30} {
				var l *calendar.Lunar
				// a conversion of an early-January day of civil year y (which belongs to lunar year y-1 and is resolved
				// through the same year table) right before the constructor: it must not matter
				try(func() {
					s, _ := safeSolar(y, 1, 2+(m+12)%9, 12, 0, 0)
					s.GetLunar()
				})
				p, _ := try(func() { l = calendar.NewLunar(y, m, d, 7, 8, 9) })
				if p {
					continue
				}
				got = append(got, append(append([]int{m, d}, lun(l)...), sol(l.GetSolar())...))
			}
		}
		f["got"] = got
		// time-field violations on one valid lunar date (month 1 day 1 exists in every year)
		t := [][]int{}
		for _, hms := range [][3]int{{0, 0, 0}, {23, 59, 59}, {-1, 0, 0}, {24, 0, 0}, {0, -1, 0}, {0, 60, 0}, {0, 0, -1}, {0, 0, 60}, {25, 61, 61}} {
			p, _ := try(func() { calendar.NewLunar(y, 1, 1, hms[0], hms[1], hms[2]) })
			p2, _ := try(func() { calendar.NewTao(y+2697, 1, 1, hms[0], hms[1], hms[2]) })
			p3, _ := try(func() { calendar.NewFoto(y+544, 1, 1, hms[0], hms[1], hms[2]) })
			t = append(t, []int{hms[0], hms[1], hms[2], b2i(p), b2i(p2), b2i(p3)})
		}
		f["t"] = t
		c.emit(f)
	}
	// the turn of the year in and after every year with a leap 11th / 12th month - found in the tail of the year's
	// own table OR in the head of the next year's, which the library builds by different rules (a list of years vs
	// the general rule): the civil day's lunar triple is accepted
	// by the constructor and leads back to the same civil day
	tys := []int{}
	for t := 1; t <= 9997; t++ {
		if !c.mine(t) {
			continue
		}
		hit := false
		try(func() {
			for _, tb := range [][][]int{yearTable(t), yearTable(t + 1)} {
				for _, r := range tb {
					if r[0] == t && (r[1] == -11 || r[1] == -12) {
						hit = true
					}
				}
			}
		})
		if hit {
			tys = append(tys, t)
		}
	}
	rows := [][]int{}
	flush := func() {
		if len(rows) > 0 {
			c.emit(obj{"ev": "C07Trip", "rows": rows})
			rows = [][]int{}
		}
	}
	for _, t := range tys {
		for _, ymd := range [][3]int{{t, 12, 20}, {t, 12, 31}, {t + 1, 1, 1}, {t + 1, 1, 15}, {t + 1, 1, 29}, {t + 1, 2, 12}} {
			s, bad := safeSolar(ymd[0], ymd[1], ymd[2], 12, 0, 0)
			if bad {
				continue
			}
			row := []int{ymd[0], ymd[1], ymd[2]}
			p, _ := try(func() {
				l := s.GetLunar()
				row = append(row, l.GetYear(), l.GetMonth(), l.GetDay())
				b := calendar.NewLunar(l.GetYear(), l.GetMonth(), l.GetDay(), 12, 0, 0).GetSolar()
				row = append(row, b.GetYear(), b.GetMonth(), b.GetDay())
			})
			row = append(row, b2i(p))
			rows = append(rows, row)
		}
		if len(rows) >= 120 {
			flush()
		}
	}
	flush()
}

// applyOp executes one chain operation on a civil cursor (shared by C04/C07 chains)
func applyOp(cur *calendar.Solar, op string, n int) (r *calendar.Solar, l []int) {
	switch op {
	case "NextDay":
		r = cur.NextDay(n)
	case "NextHour":
		r = cur.NextHour(n)
	case "NextMonth":
		r = cur.NextMonth(n)
	case "NextYear":
		r = cur.NextYear(n)
	case "JdRoundTrip":
		r = calendar.NewSolarFromJulianDay(cur.GetJulianDay())
	case "LunarRound":
		lu := cur.GetLunar()
		l = lun(lu)
		r = lu.GetSolar()
	case "LunarNext":
		lu := cur.GetLunar().Next(n)
		l = lun(lu)
		r = lu.GetSolar()
	case "LunarCtor":
		a := cur.GetLunar()
		lu := calendar.NewLunar(a.GetYear(), a.GetMonth(), a.GetDay(), a.GetHour(), a.GetMinute(), a.GetSecond())
		l = lun(lu)
		r = lu.GetSolar()
	case "TaoCtor":
		a := cur.GetLunar().GetTao()
		t := calendar.NewTao(a.GetYear(), a.GetMonth(), a.GetDay(), cur.GetHour(), cur.GetMinute(), cur.GetSecond())
		l = lun(t.GetLunar())
		r = t.GetLunar().GetSolar()
	case "FotoCtor":
		a := cur.GetLunar().GetFoto()
		t := calendar.NewFoto(a.GetYear(), a.GetMonth(), a.GetDay(), cur.GetHour(), cur.GetMinute(), cur.GetSecond())
		l = lun(t.GetLunar())
		r = t.GetLunar().GetSolar()
	case "WorkdayNext":
		r = cur.Next(n, true)
	}
	return
}

// c07 chains: random programs of stepping and conversion calls across the
// civil, lunar, Taoist and Buddhist objects; every intermediate object is projected.
func c07Chains(c *ctx) {
	nChains := c.argInt("chains", 1500)
	steps := c.argInt("steps", 30)
	ops := []string{"NextDay", "NextDay", "NextHour", "NextMonth", "NextYear", "JdRoundTrip", "LunarRound", "LunarNext", "LunarNext", "LunarCtor", "TaoCtor", "FotoCtor"}
	starts := [][]int{{1582, 10, 4}, {1582, 10, 15}, {2033, 12, 22}, {2034, 1, 19}, {16, 1, 1}, {15, 12, 31}, {24, 1, 1}, {237, 2, 11}, {240, 1, 5}, {2020, 5, 23}, {9990, 12, 31}, {3, 1, 5}}
	c.manualRotate = true
	for k := 0; k < nChains; k++ {
		if !c.mine(k) {
			continue
		}
		c.rotateIfDue()
		var cur *calendar.Solar
		if k%2 == 0 {
			st := starts[c.rng.Intn(len(starts))]
			h, mi, se := hms(c.rng.Intn(86400))
			cur, _ = safeSolar(st[0], st[1], st[2], h, mi, se)
		}
		for cur == nil {
			h, mi, se := hms(c.rng.Intn(86400))
			y := 50 + c.rng.Intn(9800)
			if c.rng.Intn(3) == 0 {
				y = 1 + c.rng.Intn(300)
			}
			cur, _ = safeSolar(y, 1+c.rng.Intn(12), 1+c.rng.Intn(31), h, mi, se)
		}
		c.emit(obj{"ev": "C07Start", "at": sol(cur), "k": k})
		for i := 0; i < steps; i++ {
			op := ops[c.rng.Intn(len(ops))]
			sign := 1
			if c.rng.Intn(2) == 0 {
				sign = -1
			}
			if cur.GetYear() < 40 {
				sign = 1
			} else if cur.GetYear() > 9900 {
				sign = -1
			}
			n := 0
			switch op {
			case "NextDay", "LunarNext":
				n = c.rng.Intn(800)
				if c.rng.Intn(5) == 0 {
					n = c.rng.Intn(12000)
				}
			case "NextHour":
				n = c.rng.Intn(300)
			case "NextMonth":
				n = c.rng.Intn(40)
			case "NextYear":
				n = c.rng.Intn(30)
			}
			n *= sign
			var r *calendar.Solar
			var l []int
			p, _ := try(func() { r, l = applyOp(cur, op, n) })
			if p {
				c.emit(obj{"ev": "C07Step", "op": op, "n": n, "p": 1, "res": []int{0, 0, 0, 0, 0, 0}, "lun": []int{}, "k": k})
				break
			}
			if l == nil {
				l = []int{}
			}
			c.emit(obj{"ev": "C07Step", "op": op, "n": n, "p": 0, "res": sol(r), "lun": l, "k": k})
			cur = r
		}
	}
}

func init() {
	cmds["c07civil"] = c07Civil
	cmds["c07lunar"] = c07Lunar
	cmds["c07chains"] = c07Chains
}
