package main

import (
	"time"

	"github.com/6tail/lunar-go/calendar"
)

func pillars(s *calendar.Solar, sect int) []string {
	ec := s.GetLunar().GetEightChar()
	_ = ec.String() // a caller that looks at the chart before choosing the convention
	ec.SetSect(sect)
	return []string{ec.GetYear(), ec.GetMonth(), ec.GetDay(), ec.GetTime()}
}

// c10: eight-character reverse lookup around the moments where it is delicate
func c10Lookups(c *ctx) {
	now := time.Now().Local().Year()
	bases := []int{1900, 1800, 1984, 2000, 1500}
	perBase := c.argInt("years", 25)
	c.emit(obj{"ev": "C10Env", "now": now})
	c.header = func() { c.emit(obj{"ev": "C10Env", "now": now}) }
	// queries taken from the last days of the year BEFORE the base year (outside the domain: only soundness is
	// demanded): a lookup must not return them, whatever month the Jie table of that year puts them in.
	// Two further seeded Julian-era bases get only these frames (Xiaohan falls in December there).
	preBases := append([]int{}, bases...)
	preBases = append(preBases, 853+c.rng.Intn(365), 1218+c.rng.Intn(365))
	for bi, base := range preBases {
		if !c.mine(base*3 + bi) {
			continue
		}
		rows := []obj{}
		for d := 18; d <= 31; d++ {
			for _, hm := range [][2]int{{12, 30}, {23, 30}, {0, 30}} {
				q, bad := safeSolar(base-1, 12, d, hm[0], hm[1], 0)
				if bad {
					continue
				}
				for _, sect := range []int{1, 2} {
					rows = append(rows, c10Row(q, sect, base, len(rows)))
				}
			}
		}
		c.emit(obj{"ev": "C10Year", "y": base - 1, "b": base, "rows": rows})
	}
	c10BaseZero(c, now)
	for bi, base := range bases {
		years := []int{base, base + 1, now - 1, now}
		// a result before the base year can only be a 60-year partner of the year before it
		for k := 1; k <= 3 && base-1+60*k <= now; k++ {
			years = append(years, base-1+60*k)
		}
		set := map[int]bool{}
		for _, y := range years {
			set[y] = true
		}
		if c.tier == "thorough" {
			for y := base; y <= now; y++ {
				set[y] = true
			}
		} else {
			for len(set) < perBase+4 && len(set) < now-base+1 {
				set[base+c.rng.Intn(now-base+1)] = true
			}
		}
		for y := range set {
			if !c.mine(y*7 + bi) {
				continue
			}
			moments := [][6]int{}
			add := func(yy, m, d, sod int) {
				for sod < 0 {
					sod += 86400
					s, _ := safeSolar(yy, m, d, 0, 0, 0)
					s = s.NextDay(-1)
					yy, m, d = s.GetYear(), s.GetMonth(), s.GetDay()
				}
				for sod >= 86400 {
					sod -= 86400
					s, _ := safeSolar(yy, m, d, 0, 0, 0)
					s = s.NextDay(1)
					yy, m, d = s.GetYear(), s.GetMonth(), s.GetDay()
				}
				h, mi, se := hms(sod)
				moments = append(moments, [6]int{yy, m, d, h, mi, se})
			}
			s0, _ := safeSolar(y, 6, 15, 12, 0, 0)
			tab := termTable(s0.GetLunar())
			var xiaohan *calendar.Solar
			for i, row := range tab {
				if len(row) < 7 || i%2 == 1 {
					continue
				}
				ty, tm, td := row[1].(int), row[2].(int), row[3].(int)
				if ty != y {
					continue
				}
				sod := row[4].(int)*3600 + row[5].(int)*60 + row[6].(int)
				if xiaohan == nil {
					// the first Jie instant inside civil year y (Xiaohan in the Gregorian era; in the Julian era Xiaohan
					// falls in the previous December and the first one is Lichun)
					xiaohan, _ = safeSolar(ty, tm, td, row[4].(int), row[5].(int), row[6].(int))
				}
				h := sod / 3600
				slotStart := ((h+1)/2*2 - 1) * 3600 // start of the two-hour slot containing the instant (may be -3600 for 00:xx)
				for _, t := range []int{sod, sod - 1, sod + 1, sod - 60, sod + 60, slotStart, slotStart + 7199, slotStart + 3600, slotStart + 3599, slotStart - 1, slotStart + 7200} {
					add(ty, tm, td, t)
				}
			}
			// the two ends of the civil year: the last rat slot of the year runs into the next one
			for _, t := range []int{82800, 84600, 86399} {
				add(y, 12, 31, t)
			}
			for _, t := range []int{0, 1800, 3599} {
				add(y, 1, 1, t)
			}
			for k := 0; k < 3; k++ {
				m, d := 1+c.rng.Intn(12), 1+c.rng.Intn(28)
				for _, t := range []int{82800, 86399, 0, 3599, 3600, 82799} {
					add(y, m, d, t)
				}
			}
			for k := 0; k < c.argInt("rand", 8); k++ {
				add(y, 1+c.rng.Intn(12), 1+c.rng.Intn(28), c.rng.Intn(86400))
			}
			rows := []obj{}
			for _, mo6 := range moments {
				q, bad := safeSolar(mo6[0], mo6[1], mo6[2], mo6[3], mo6[4], mo6[5])
				if bad || q.GetYear() > now || q.GetYear() < base {
					continue
				}
				if q.GetYear() == base && xiaohan != nil && y == base && q.IsBefore(xiaohan) {
					continue // the domain starts at the Xiaohan of the base year
				}
				for _, sect := range []int{1, 2} {
					rows = append(rows, c10Row(q, sect, base, len(rows)))
				}
			}
			if len(rows) > 0 {
				c.emit(obj{"ev": "C10Year", "y": y, "b": base, "rows": rows})
			}
		}
	}
}

// base year 0 (an explicit base that happens to be the zero value): a few moments of any era
func c10BaseZero(c *ctx, now int) {
	rows := []obj{}
	for k := 0; k < 24; k++ {
		y := 1 + c.rng.Intn(now)
		if k%3 == 0 {
			y = 1583 + c.rng.Intn(now-1583)
		}
		q, bad := safeSolar(y, 1+c.rng.Intn(12), 1+c.rng.Intn(28), c.rng.Intn(24), c.rng.Intn(60), 0)
		if bad || !c.mine(k) {
			continue
		}
		rows = append(rows, c10Row(q, 1+k%2, 0, 1))
	}
	if len(rows) > 0 {
		c.emit(obj{"ev": "C10Year", "y": 0, "b": 0, "rows": rows})
	}
}

// c10Row: one lookup with the pillars of q (k alternates the entry point for the default base)
func c10Row(q *calendar.Solar, sect int, base int, k int) obj {
	row := obj{"q": sol(q), "s": sect, "b": base}
	p, _ := try(func() {
		l := q.GetLunar()
		pz := pillars(q, sect)
		row["pz"] = pz
		pj, nj := l.GetPrevJie(), l.GetNextJie()
		row["pj"] = sol(pj.GetSolar())
		row["nj"] = sol(nj.GetSolar())
		var lst []*calendar.Solar
		if base == 1900 && sect == 2 && k%2 == 0 {
			for i := calendar.ListSolarFromBaZi(pz[0], pz[1], pz[2], pz[3]).Front(); i != nil; i = i.Next() {
				lst = append(lst, i.Value.(*calendar.Solar))
			}
			row["via"] = "default"
		} else if base == 1900 {
			for i := calendar.ListSolarFromBaZiBySect(pz[0], pz[1], pz[2], pz[3], sect).Front(); i != nil; i = i.Next() {
				lst = append(lst, i.Value.(*calendar.Solar))
			}
			row["via"] = "bySect"
		} else {
			for i := calendar.ListSolarFromBaZiBySectAndBaseYear(pz[0], pz[1], pz[2], pz[3], sect, base).Front(); i != nil; i = i.Next() {
				lst = append(lst, i.Value.(*calendar.Solar))
			}
			row["via"] = "byBase"
		}
		rs := []obj{}
		for _, r := range lst {
			rs = append(rs, obj{"at": sol(r), "pz": pillars(r, sect)})
		}
		row["r"] = rs
	})
	row["p"] = b2i(p)
	return row
}

func init() { cmds["c10lookups"] = c10Lookups }
