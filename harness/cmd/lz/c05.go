package main

import (
	"fmt"

	"github.com/6tail/lunar-go/LunarUtil"
	"github.com/6tail/lunar-go/calendar"
)

var c05Boundary = []int{1, 2, 4, 15, 16, 18, 19, 24, 100, 1582, 1583, 1900, 1984, 2000, 2020, 2021, 2023, 2024, 2033, 2034, 9997, 9998}

// termTable: the 31 entries of a Lunar object's table, in list order
func termTable(l *calendar.Lunar) [][]interface{} {
	tab := [][]interface{}{}
	tbl := l.GetJieQiTable()
	for i := l.GetJieQiList().Front(); i != nil; i = i.Next() {
		k := i.Value.(string)
		s := tbl[k]
		if s == nil {
			tab = append(tab, []interface{}{k})
		} else {
			tab = append(tab, []interface{}{k, s.GetYear(), s.GetMonth(), s.GetDay(), s.GetHour(), s.GetMinute(), s.GetSecond()})
		}
	}
	return tab
}

func pillarObs(l *calendar.Lunar) obj {
	o := obj{"at": sol(l.GetSolar()), "ly": l.GetYear()}
	p, _ := try(func() {
		o["idx"] = []int{
			l.GetYearGanIndex(), l.GetYearZhiIndex(), l.GetYearGanIndexByLiChun(), l.GetYearZhiIndexByLiChun(), l.GetYearGanIndexExact(), l.GetYearZhiIndexExact(),
			l.GetMonthGanIndex(), l.GetMonthZhiIndex(), l.GetMonthGanIndexExact(), l.GetMonthZhiIndexExact(),
			l.GetDayGanIndex(), l.GetDayZhiIndex(), l.GetDayGanIndexExact(), l.GetDayZhiIndexExact(), l.GetDayGanIndexExact2(), l.GetDayZhiIndexExact2(),
			l.GetTimeGanIndex(), l.GetTimeZhiIndex()}
		o["str"] = []string{
			l.GetYearInGanZhi(), l.GetYearInGanZhiByLiChun(), l.GetYearInGanZhiExact(),
			l.GetMonthInGanZhi(), l.GetMonthInGanZhiExact(),
			l.GetDayInGanZhi(), l.GetDayInGanZhiExact(), l.GetDayInGanZhiExact2(), l.GetTimeInGanZhi(),
			l.GetYearGan() + l.GetYearZhi(), l.GetMonthGan() + l.GetMonthZhi(), l.GetDayGan() + l.GetDayZhi(), l.GetTimeGan() + l.GetTimeZhi(),
			l.GetYearShengXiao(), l.GetYearShengXiaoByLiChun(), l.GetYearShengXiaoExact(), l.GetMonthShengXiao(), l.GetDayShengXiao(), l.GetTimeShengXiao()}
		ec := l.GetEightChar()
		ec.SetSect(1)
		o["ec1"] = []string{ec.GetYear(), ec.GetMonth(), ec.GetDay(), ec.GetTime()}
		s1 := ec.String()
		// the deprecated array accessor follows the convention in force on the chart
		o["bz1"] = l.GetBaZi()
		ec.SetSect(2)
		o["ec2"] = []string{ec.GetYear(), ec.GetMonth(), ec.GetDay(), ec.GetTime()}
		// the chart as it prints itself under each convention (the four pillars separated by blanks)
		o["ecs"] = []string{s1, ec.String()}
		// the deprecated array accessor (the default convention, the chart is back on 2 here)
		o["bz"] = l.GetBaZi()
		// the thirteen hour objects of the day as this object lists them (hours 0, 1, 3, ..., 23): their pillars
		if so := l.GetSolar(); so.GetHour() == 23 || so.GetSecond()%4 == 0 {
			tms := [][]int{}
			for _, t := range l.GetTimes() {
				tms = append(tms, []int{t.GetGanIndex(), t.GetZhiIndex()})
			}
			o["times"] = tms
		}
		o["tm"] = []int{l.GetTime().GetGanIndex(), l.GetTime().GetZhiIndex()}
		// extension (outside C05): the bounds of the two-hour slot as the hour object prints them
		o["hm"] = [][]int{codepoints(l.GetTime().GetMinHm()), codepoints(l.GetTime().GetMaxHm())}
	})
	o["p"] = b2i(p)
	return o
}

// the public helper that maps a clock string to the hour branch: every minute of the day as "HH:mm", and with
// seconds appended (the helper documents "HH:mm", longer strings are cut)
func c05ClockStrings(c *ctx) {
	rows := [][]interface{}{}
	for h := 0; h < 24; h++ {
		for mi := 0; mi < 60; mi++ {
			for form, s := range []string{fmt.Sprintf("%02d:%02d", h, mi), fmt.Sprintf("%02d:%02d:30", h, mi), fmt.Sprintf("%02d:%02d:59", h, mi)} {
				if form > 0 && mi != 59 && mi != 0 && (h*60+mi)%7 != 0 {
					continue
				}
				idx, name, pan := -1, "", 0
				if p, _ := try(func() { idx, name = LunarUtil.GetTimeZhiIndex(s), LunarUtil.ConvertTime(s) }); p {
					pan = 1
				}
				rows = append(rows, []interface{}{h, mi, form, idx, name, pan})
			}
		}
	}
	c.emit(obj{"ev": "C05Clock", "rows": rows})
}

func c05Years(c *ctx) {
	if c.shard == 0 {
		c05ClockStrings(c)
	}
	years := c.yearsFor(append(append([]int{}, c05Boundary...), termEdgeYears(c.argInt("edge", 60), true)...), c.argInt("years", 150), 1, 9998)
	for _, y := range years {
		if !c.mine(y) {
			continue
		}
		f := obj{"ev": "C05Year", "y": y}
		var l0 *calendar.Lunar
		p, _ := try(func() {
			s, _ := safeSolar(y, 6, 15, 12, 0, 0)
			l0 = s.GetLunar()
		})
		f["p"] = b2i(p)
		if p {
			c.emit(f)
			continue
		}
		tab := termTable(l0)
		f["tab"] = tab
		qs := []obj{}
		seen := map[[6]int]bool{}
		add := func(s *calendar.Solar) {
			if s == nil || s.GetYear() != y {
				return
			}
			k := [6]int{s.GetYear(), s.GetMonth(), s.GetDay(), s.GetHour(), s.GetMinute(), s.GetSecond()}
			if seen[k] {
				return
			}
			seen[k] = true
			if len(qs)%11 == 5 {
				perturb(c, y)
			}
			var l *calendar.Lunar
			pp, _ := try(func() { l = s.GetLunar() })
			if pp {
				qs = append(qs, obj{"at": sol(s), "p": 1})
				return
			}
			qs = append(qs, pillarObs(l))
		}
		at := func(yy, m, d, sod int) {
			if sod < 0 || sod > 86399 {
				return
			}
			h, mi, se := hms(sod)
			x, pp := safeSolar(yy, m, d, h, mi, se)
			if !pp {
				add(x)
			}
		}
		for i, row := range tab {
			if len(row) < 7 || i%2 == 1 { // Jie entries sit at even 0-based positions
				continue
			}
			ty, tm, td := row[1].(int), row[2].(int), row[3].(int)
			sod := row[4].(int)*3600 + row[5].(int)*60 + row[6].(int)
			for _, ds := range []int{0, -1, 1} {
				at(ty, tm, td, sod+ds)
			}
			at(ty, tm, td, 0)
			at(ty, tm, td, 86399)
			at(ty, tm, td, 82800)
			t, pp := safeSolar(ty, tm, td, 12, 0, 0)
			if !pp {
				for _, dd := range []int{-1, 1} {
					n := t.NextDay(dd)
					at(n.GetYear(), n.GetMonth(), n.GetDay(), 0)
					at(n.GetYear(), n.GetMonth(), n.GetDay(), 86399)
				}
			}
		}
		// the 23:00 boundary and midnight on seeded days
		for k := 0; k < 6; k++ {
			m, d := 1+c.rng.Intn(12), 1+c.rng.Intn(28)
			for _, sod := range []int{82799, 82800, 86399, 0, 3599, 3600} {
				at(y, m, d, sod)
			}
		}
		// every two-hour slot boundary on two seeded days
		for k := 0; k < 2; k++ {
			m, d := 1+c.rng.Intn(12), 1+c.rng.Intn(28)
			for h := 1; h <= 23; h += 2 {
				at(y, m, d, h*3600-1)
				at(y, m, d, h*3600)
				at(y, m, d, h*3600+1)
			}
		}
		// lunar New Year's Eve / Day, the year ends
		try(func() {
			ny := calendar.NewLunar(y, 1, 1, 0, 0, 0).GetSolar()
			ev := ny.NextDay(-1)
			at(ny.GetYear(), ny.GetMonth(), ny.GetDay(), 0)
			at(ny.GetYear(), ny.GetMonth(), ny.GetDay(), 43200)
			at(ev.GetYear(), ev.GetMonth(), ev.GetDay(), 86399)
			at(ev.GetYear(), ev.GetMonth(), ev.GetDay(), 43200)
		})
		for _, d := range []int{26, 27, 28, 29, 30, 31} {
			at(y, 12, d, 43200)
		}
		for _, d := range []int{1, 2, 3} {
			at(y, 1, d, 43200)
		}
		for k := 0; k < 10; k++ {
			at(y, 1+c.rng.Intn(12), 1+c.rng.Intn(31), c.rng.Intn(86400))
		}
		f["q"] = qs
		c.emit(f)
	}
}

func init() { cmds["c05years"] = c05Years }
