package main

import (
	"bufio"
	"bytes"
	"container/list"
	"crypto/sha1"
	"fmt"
	"os"
	"path/filepath"
	"reflect"
	"runtime"
	"strconv"
	"strings"
	"sync"
	"time"

	"github.com/6tail/lunar-go/HolidayUtil"
	"github.com/6tail/lunar-go/LunarUtil"
	"github.com/6tail/lunar-go/SolarUtil"
	"github.com/6tail/lunar-go/calendar"
)

func gid() int64 {
	var buf [64]byte
	n := runtime.Stack(buf[:], false)
	f := bytes.Fields(buf[:n])
	id, _ := strconv.ParseInt(string(f[1]), 10, 64)
	return id
}

// light digest of a lunar year's published content
func yearDigest(ly *calendar.LunarYear) string {
	h := sha1.New()
	for _, r := range moList(ly.GetMonths()) {
		fmt.Fprintf(h, "%v;", r)
	}
	for _, v := range ly.GetJieQiJulianDays() {
		fmt.Fprintf(h, "%.6f;", v)
	}
	fmt.Fprintf(h, "%d/%d/%s", ly.GetLeapMonth(), ly.GetDayCount(), ly.GetGanZhi())
	return fmt.Sprintf("%x", h.Sum(nil))[:12]
}

func lunarDigest(l *calendar.Lunar) string {
	h := sha1.New()
	fmt.Fprintf(h, "%s|%s|%v|", l.ToFullString(), l.GetSolar().ToYmdHms(), lun(l))
	fmt.Fprintf(h, "%s|%s|%s|", l.GetEightChar().String(), l.GetPrevJieQi().GetName(), l.GetNextJieQi().GetSolar().ToYmdHms())
	// value objects and lists handed out to the caller (must be the caller's own: see scribble)
	fmt.Fprintf(h, "%s|%s|%s|%s|%s|%s|", callRender(l.GetShuJiu()), callRender(l.GetFu()), callRender(l.GetFestivals()), callRender(l.GetOtherFestivals()),
		callRender(l.GetDayNineStar()), callRender(l.GetTime().GetNineStar()))
	fmt.Fprintf(h, "%s|%s|%s|%s|%s|%s|", callRender(l.GetDayYi()), callRender(l.GetDayJi()), callRender(l.GetDayJiShen()), callRender(l.GetDayXiongSha()),
		callRender(l.GetTimeYi()), callRender(l.GetTimeJi()))
	fmt.Fprintf(h, "%s|%s|", callRender(l.GetSolar().GetFestivals()), callRender(l.GetSolar().GetOtherFestivals()))
	for _, row := range termTable(l) {
		fmt.Fprintf(h, "%v;", row)
	}
	return fmt.Sprintf("%x", h.Sum(nil))[:12]
}

type schedEvent struct {
	pid  int
	ev   string
	year int
}

// c09 schedules: TLC-chosen lock-acquisition orders are forced on real goroutines through the gate hook.
func c09Sched(c *ctx) {
	singleThreaded = false
	f, err := os.Open(c.arg("orders", "orders.txt"))
	if err != nil {
		fmt.Fprintln(os.Stderr, err)
		os.Exit(2)
	}
	defer f.Close()
	years := []int{2020, 2021, 2033}
	ref := map[int]string{}
	for _, y := range years {
		ref[y] = yearDigest(calendar.NewLunarYear(y))
	}
	var mu sync.Mutex
	cond := sync.NewCond(&mu)
	var order []int
	turn := 0
	pidOf := map[int64]int{}
	var events []schedEvent
	aborted := false
	calendar.VerifHook = func(ev string, year int) {
		g := gid()
		mu.Lock()
		p, ok := pidOf[g]
		if !ok {
			mu.Unlock()
			return
		}
		switch ev {
		case "gate":
			for !aborted && (turn >= len(order) || order[turn] != p) {
				cond.Wait()
			}
		case "acquired":
			events = append(events, schedEvent{p, ev, year})
			turn++ // the next process in the order may now pass its gate and contend for the lock
			cond.Broadcast()
		default:
			events = append(events, schedEvent{p, ev, year})
		}
		mu.Unlock()
	}
	sc := bufio.NewScanner(f)
	i := 0
	for sc.Scan() {
		i++
		if !c.mine(i) {
			continue
		}
		fs := strings.Fields(sc.Text())
		ord := []int{}
		np := 0
		for _, x := range fs {
			n, _ := strconv.Atoi(x)
			ord = append(ord, n)
			if n > np {
				np = n
			}
		}
		// year of the k-th call of process p: a seeded pattern so that hits and misses both occur
		yearOf := func(p, k int) int { return years[(p*7+k*3+int(c.seed)+i)%len(years)] }
		calls := map[int]int{}
		for _, p := range ord {
			calls[p]++
		}
		cy, hasC := calendar.VerifCachedYear()
		mu.Lock()
		order, turn, events, aborted = ord, 0, nil, false
		pidOf = map[int64]int{}
		mu.Unlock()
		type res struct {
			pid, k, year int
			dig          string
			pan          bool
		}
		var rmu sync.Mutex
		results := []res{}
		var wg sync.WaitGroup
		for p := 1; p <= np; p++ {
			wg.Add(1)
			go func(p int) {
				defer wg.Done()
				mu.Lock()
				pidOf[gid()] = p
				mu.Unlock()
				for k := 0; k < calls[p]; k++ {
					y := yearOf(p, k)
					var d string
					pan, _ := try(func() { d = yearDigest(calendar.NewLunarYear(y)) })
					rmu.Lock()
					results = append(results, res{p, k, y, d, pan})
					rmu.Unlock()
				}
			}(p)
		}
		done := make(chan bool)
		go func() { wg.Wait(); close(done) }()
		blocked := 0
		select {
		case <-done:
		case <-time.After(120 * time.Second): // a handful of calls that take milliseconds: generous even on a loaded machine
			blocked = 1
			mu.Lock()
			aborted = true
			cond.Broadcast()
			mu.Unlock()
		}
		mu.Lock()
		evs := [][]interface{}{}
		for _, e := range events {
			evs = append(evs, []interface{}{e.pid, e.ev, e.year})
		}
		mu.Unlock()
		cl := [][]interface{}{}
		rmu.Lock()
		for _, r := range results {
			cl = append(cl, []interface{}{r.pid, r.k, r.year, r.dig, ref[r.year], b2i(r.pan)})
		}
		rmu.Unlock()
		c0 := 0
		if hasC {
			c0 = cy
		}
		lf := 0
		if blocked == 0 {
			lf = b2i(calendar.VerifLockFree())
		}
		c.emit(obj{"ev": "C09Run", "order": ord, "cache0": c0, "events": evs, "calls": cl, "blocked": blocked, "lockfree": lf})
		if blocked == 1 {
			break // the library is wedged; nothing after this can be observed in this process
		}
	}
	calendar.VerifHook = nil
}

// the alphabet of calls for the history check: id -> (digest, panicked)
func c09Call(id int) (d string, pan bool) {
	pan, _ = try(func() {
		switch id {
		case 0:
			s, _ := safeSolar(2020, 5, 23, 10, 0, 0)
			d = lunarDigest(s.GetLunar())
			// the holiday records of the month before, by every kind of key, and what the civil date makes of them
			h0, _ := safeSolar(2020, 4, 30, 0, 0, 0)
			d += sha12(callRender(HolidayUtil.GetHoliday("2020-05-01")) + callRender(HolidayUtil.GetHoliday("20200505")) +
				callRender(HolidayUtil.GetHolidayByYmd(2020, 5, 9)) + callRender(HolidayUtil.GetHolidays("202005")) +
				callRender(HolidayUtil.GetHolidaysByTarget("2020-05-01")) + s.Next(-16, true).ToYmd() + h0.Next(1, true).ToYmd() +
				fmt.Sprint(h0.Next(1, false).GetSalaryRate(), h0.Next(9, false).GetSalaryRate()))
		case 1:
			s, _ := safeSolar(2021, 2, 11, 23, 30, 0)
			d = lunarDigest(s.GetLunar())
		case 2:
			s, _ := safeSolar(2033, 12, 25, 12, 0, 0)
			d = lunarDigest(s.GetLunar())
		case 3:
			d = lunarDigest(calendar.NewLunar(2020, -4, 1, 1, 2, 3))
		case 4:
			m := calendar.NewLunarMonthFromYm(2020, 12).Next(3)
			d = fmt.Sprint(mo(m))
		case 5:
			calendar.NewLunar(2021, 13, 1, 0, 0, 0) // invalid: panics
			d = "no-panic"
		case 6:
			calendar.NewSolar(2021, 2, 30, 0, 0, 0) // invalid: panics
			d = "no-panic"
		case 7:
			d = yearDigest(calendar.NewLunarYear(2023))
		case 8:
			s, _ := safeSolar(2034, 1, 5, 0, 0, 0)
			l := s.GetLunar()
			d = lunarDigest(l) + fmt.Sprint(l.GetDayNineStar().GetIndex(), l.GetFoto().GetYear(), l.GetShuJiu() != nil)
		case 9:
			// a caller that writes into everything it was handed: every public setter of every object returned by the
			// accessors of these dates is called with garbage, every returned list is extended.  The objects belong to
			// the caller; no later call may see any of it.
			for _, ymd := range [][6]int{{2033, 12, 25, 12, 0, 0}, {2034, 1, 5, 0, 0, 0}, {2020, 5, 23, 10, 0, 0}} {
				s, _ := safeSolar(ymd[0], ymd[1], ymd[2], ymd[3], ymd[4], ymd[5])
				scribble(s.GetLunar())
				// the civil date's own lists too
				try(func() {
					s.GetFestivals().PushBack("污")
					s.GetOtherFestivals().PushBack("污")
				})
			}
			// and the holiday records, however they were looked up
			hs := []*HolidayUtil.Holiday{HolidayUtil.GetHoliday("2020-05-01"), HolidayUtil.GetHoliday("20200505"), HolidayUtil.GetHolidayByYmd(2020, 5, 9),
				HolidayUtil.GetHolidayByYmd(2020, 5, 1), HolidayUtil.GetHoliday("2020-05-09")}
			for _, l := range []*list.List{HolidayUtil.GetHolidays("202005"), HolidayUtil.GetHolidaysByTarget("2020-05-01"), HolidayUtil.GetHolidaysByYear(2020)} {
				for e := l.Front(); e != nil; e = e.Next() {
					hs = append(hs, e.Value.(*HolidayUtil.Holiday))
				}
				l.PushBack("污")
			}
			for _, h := range hs {
				if h != nil {
					h.SetWork(!h.IsWork())
					h.SetName("污")
					h.SetTarget("2020-01-01")
					h.SetDay("2020-01-02")
				}
			}
			d = "scribbled"
		}
	})
	return
}

// scribble calls every Set* method (one argument of a basic kind) of every struct pointer the zero-argument
// accessors of x return, and appends to every *list.List they return
func scribble(x interface{}) { scribbleWith(x, true) }

// lists = false: only the library's own setters are used (a sequence of public calls of the library), the
// container/list values are left alone
func scribbleWith(x interface{}, lists bool) { scribbleExcept(x, lists, nil) }

// except: a type whose values are left alone (the chart, which is a view of its date object and not the caller's own)
func scribbleExcept(x interface{}, lists bool, except reflect.Type) {
	for _, r := range callZeroArg(x, nil) {
		if r.panic || !r.val.IsValid() {
			continue
		}
		v := r.val
		if v.Kind() == reflect.Interface && !v.IsNil() {
			v = v.Elem()
		}
		if v.Kind() != reflect.Ptr || v.IsNil() || (except != nil && v.Type() == except) {
			continue
		}
		if l, ok := v.Interface().(*list.List); ok {
			if lists {
				l.PushBack("污")
			}
			continue
		}
		if v.Elem().Kind() != reflect.Struct {
			continue
		}
		t := v.Type()
		for i := 0; i < t.NumMethod(); i++ {
			mt := t.Method(i)
			if !strings.HasPrefix(mt.Name, "Set") || mt.Type.NumIn() != 2 {
				continue
			}
			var arg reflect.Value
			switch mt.Type.In(1).Kind() {
			case reflect.String:
				arg = reflect.ValueOf("污")
			case reflect.Int:
				arg = reflect.ValueOf(7)
			case reflect.Bool:
				arg = reflect.ValueOf(true)
			case reflect.Ptr:
				if mt.Type.In(1) != reflect.TypeOf(&calendar.Solar{}) {
					continue
				}
				arg = reflect.ValueOf(calendar.NewSolarFromYmd(1999, 9, 9))
			default:
				continue
			}
			try(func() { v.Method(i).Call([]reflect.Value{arg}) })
		}
	}
}

func c09Hist(c *ctx) {
	maxLen := c.argInt("len", 4)
	n := 10
	refD := make([]string, n)
	refP := make([]bool, n)
	for i := 0; i < n; i++ {
		refD[i], refP[i] = c09Call(i)
	}
	idx := 0
	var rec func(prefix []int)
	emitSeq := func(seq []int) {
		idx++
		if !c.mine(idx) {
			return
		}
		rows := [][]interface{}{}
		for _, id := range seq {
			d, p := c09Call(id)
			rows = append(rows, []interface{}{id, d, refD[id], b2i(p), b2i(refP[id])})
		}
		c.emit(obj{"ev": "C09Hist", "seq": seq, "calls": rows, "lockfree": b2i(calendar.VerifLockFree())})
	}
	rec = func(prefix []int) {
		if len(prefix) > 0 {
			emitSeq(prefix)
		}
		if len(prefix) == maxLen {
			return
		}
		for i := 0; i < n; i++ {
			rec(append(append([]int{}, prefix...), i))
		}
	}
	rec(nil)
}

// stress under the race detector: many goroutines, mixed calls, shared objects; the hook trace and any race
// report are turned into events
func c09Stress(c *ctx) {
	singleThreaded = false
	dur := time.Duration(c.argInt("ms", 4000)) * time.Millisecond
	ng := c.argInt("g", 16)
	var mu sync.Mutex
	pidOf := map[int64]int{}
	events := [][]interface{}{}
	maxEv := c.argInt("maxev", 60000)
	calendar.VerifHook = func(ev string, year int) {
		if ev == "gate" {
			return
		}
		g := gid()
		mu.Lock()
		if p, ok := pidOf[g]; ok && len(events) < maxEv {
			events = append(events, []interface{}{p, ev, year})
		}
		mu.Unlock()
	}
	ref := map[int]string{}
	for y := 2015; y <= 2040; y++ {
		ref[y] = yearDigest(calendar.NewLunarYear(y))
	}
	// shared read-only objects
	sh, _ := safeSolar(2024, 2, 10, 23, 30, 0)
	shLunar := sh.GetLunar()
	shYear := calendar.NewLunarYear(2024)
	shMonth := calendar.NewLunarMonthFromYm(2024, 1)
	refShared := digest(shLunar, nil) + digest(shYear, nil) + digest(shMonth, nil) + digest(sh, nil)
	sh2, _ := safeSolar(2024, 2, 10, 23, 30, 0)
	shLunar = sh2.GetLunar() // a fresh object whose lazily created parts are still untouched
	// the cache as the goroutines find it: read after the last unrecorded call of this (unregistered) goroutine
	cy, _ := calendar.VerifCachedYear()
	stop := time.Now().Add(dur)
	var wg sync.WaitGroup
	type res struct {
		year      int
		dig       string
		shared    string
		panicked  int
		blockedMs int
	}
	results := make([][]res, ng)
	for g := 0; g < ng; g++ {
		wg.Add(1)
		go func(g int) {
			defer wg.Done()
			mu.Lock()
			pidOf[gid()] = g + 1
			mu.Unlock()
			k := 0
			for time.Now().Before(stop) && k < 400 {
				k++
				y := 2015 + (g*5+k*7)%26
				t0 := time.Now()
				var d, s string
				p, _ := try(func() {
					switch k % 4 {
					case 0:
						d = yearDigest(calendar.NewLunarYear(y))
					case 1:
						so, _ := safeSolar(y, 1+k%12, 1+k%28, k%24, 0, 0)
						so.GetLunar()
						d = yearDigest(calendar.NewLunarYear(y))
					case 2:
						calendar.NewLunarMonthFromYm(y, 12).Next(2)
						d = yearDigest(calendar.NewLunarYear(y))
					default:
						// read-only accessors on the shared objects
						s = digest(shLunar, nil) + digest(shYear, nil) + digest(shMonth, nil) + digest(sh, nil)
						d = ref[y]
					}
				})
				results[g] = append(results[g], res{y, d, s, b2i(p), int(time.Since(t0) / time.Millisecond)})
			}
		}(g)
	}
	done := make(chan bool)
	go func() { wg.Wait(); close(done) }()
	blocked := 0
	select {
	case <-done:
	case <-time.After(dur + 180*time.Second):
		blocked = 1
	}
	calendar.VerifHook = nil
	// shared-object rounds without the hook (its mutex would order the goroutines and hide races):
	// a fresh shared object per round, goroutines released together, each starts at another accessor
	rounds := c.argInt("rounds", 60)
	sharedBad := 0
	for r := 0; r < rounds && blocked == 0; r++ {
		so, _ := safeSolar(2000+r%40, 1+r%12, 1+r%28, 23, 30, 0)
		var targets []interface{}
		lu := so.GetLunar()
		switch r % 6 {
		case 0:
			targets = []interface{}{lu}
		case 1:
			targets = []interface{}{lu.GetEightChar()}
		case 2:
			targets = []interface{}{calendar.NewLunarYear(2000 + r%40), calendar.NewLunarMonthFromYm(2000+r%40, 1)}
		case 3:
			targets = []interface{}{so, lu.GetTime()}
		case 4:
			targets = []interface{}{calendar.NewSolarWeekFromYmd(2000+r%40, 1+r%12, 1+r%28, r%7), calendar.NewSolarMonthFromYm(2000+r%40, 1+r%12),
				calendar.NewSolarYearFromYear(2000 + r%40), calendar.NewSolarSeasonFromYm(2000+r%40, 1+r%12), calendar.NewSolarHalfYearFromYm(2000+r%40, 1+r%12)}
		default:
			yun := lu.GetEightChar().GetYun(r % 2)
			targets = []interface{}{lu.GetTao(), lu.GetFoto(), yun, yun.GetDaYun()[1], lu.GetDayNineStar(), lu.GetPrevJieQi()}
		}
		start := make(chan bool)
		var wg2 sync.WaitGroup
		digs := make([]string, 8)
		for g := 0; g < 8; g++ {
			wg2.Add(1)
			go func(g int) {
				defer wg2.Done()
				<-start
				d := ""
				for _, t := range targets {
					rs := callZeroArgRotated(t, g*17)
					d += rs
				}
				digs[g] = d
			}(g)
		}
		close(start)
		wg2.Wait()
		for g := 1; g < 8; g++ {
			if digs[g] != digs[0] {
				sharedBad++
			}
		}
	}
	// value calls on SEPARATE objects and package-level helpers, goroutines released together: each call's result
	// against the single-goroutine reference taken first (shared scratch buffers, unsynchronised memos)
	valueBad, valueWit := 0, ""
	vcall := func(i, a int) (out string) {
		try(func() {
			y := 1990 + a%60
			switch i % 9 {
			case 0:
				s1, _ := safeSolar(y+100, 10, 1, 0, 0, 0)
				s2, _ := safeSolar(y, 10, 1, 0, 0, 0)
				out = fmt.Sprint(s1.Subtract(s2), s2.SubtractMinute(s1), s1.IsAfter(s2))
			case 1:
				s, _ := safeSolar(y, 1+a%12, 1+a%28, 12, 0, 0)
				out = callRender(s.GetFestivals()) + callRender(s.GetOtherFestivals()) + fmt.Sprint(s.GetWeek(), s.GetXingZuo())
			case 2:
				s, _ := safeSolar(y, 1+a%12, 1+a%28, a%24, 30, 0)
				out = s.GetLunar().ToFullString()
			case 3:
				s, _ := safeSolar(y, 1+a%12, 1+a%28, 9, 0, 0)
				out = s.ToFullString() + s.ToYmdHms() + s.GetLunar().GetTao().String() + s.GetLunar().GetFoto().ToFullString()
			case 4:
				gz := LunarUtil.JIA_ZI[a%60]
				out = fmt.Sprint(LunarUtil.GetJiaZiIndex(gz)) + callRender(LunarUtil.GetDayJiShen(1+a%12, gz)) + callRender(LunarUtil.GetDayYi(LunarUtil.JIA_ZI[(a*7)%60], gz))
			case 5:
				out = callRender(HolidayUtil.GetHolidaysByYm(2001+a%24, 1+a%12)) + callRender(HolidayUtil.GetHolidaysByTarget(fmt.Sprintf("%d-10-01", 2001+a%24)))
			case 6:
				s, _ := safeSolar(2001+a%24, 1+a%12, 1+a%28, 0, 0, 0)
				out = s.Next(a%9-4, true).ToYmd() + fmt.Sprint(s.GetSalaryRate())
			case 7:
				out = fmt.Sprint(SolarUtil.GetWeeksOfMonth(y, 1+a%12, a%7), SolarUtil.GetDaysOfYear(y), SolarUtil.GetDaysInYear(y, 1+a%12, 1+a%28)) +
					calendar.NewSolarWeekFromYmd(y, 1+a%12, 1+a%28, a%7).String()
			default:
				s, _ := safeSolar(y, 1+a%12, 1+a%28, a%24, 0, 0)
				ec := s.GetLunar().GetEightChar()
				out = ec.String() + ec.GetYun(a%2).GetStartSolar().ToYmd()
			}
		})
		return
	}
	vref := map[[2]int]string{}
	for i := 0; i < 9; i++ {
		for a := 0; a < 64; a++ {
			vref[[2]int{i, a}] = vcall(i, a)
		}
	}
	for r := 0; r < rounds && blocked == 0; r++ {
		start := make(chan bool)
		var wg3 sync.WaitGroup
		var vmu sync.Mutex
		for g := 0; g < 8; g++ {
			wg3.Add(1)
			go func(g int) {
				defer wg3.Done()
				<-start
				for j := 0; j < 9; j++ {
					i, a := (j+g)%9, (r*8+g*5+j)%64
					if got := vcall(i, a); got != vref[[2]int{i, a}] {
						vmu.Lock()
						valueBad++
						if valueWit == "" {
							valueWit = fmt.Sprintf("call %d arg %d", i, a)
						}
						vmu.Unlock()
					}
				}
			}(g)
		}
		close(start)
		wg3.Wait()
	}
	calls := [][]interface{}{}
	if blocked == 0 {
		for g := range results {
			for _, r := range results[g] {
				row := []interface{}{g + 1, r.year, r.dig, ref[r.year], r.panicked}
				if r.shared != "" {
					row = append(row, r.shared, refShared)
				}
				calls = append(calls, row)
			}
		}
	}
	mu.Lock()
	evs := events
	mu.Unlock()
	lf := 0
	if blocked == 0 {
		lf = b2i(calendar.VerifLockFree())
	}
	c.emit(obj{"ev": "C09Stress", "cache0": cy, "events": evs, "calls": calls, "blocked": blocked, "lockfree": lf, "truncated": b2i(len(evs) >= maxEv),
		"rounds": rounds, "sharedDiffer": sharedBad, "valueDiffer": valueBad, "valueWit": valueWit})
	// race reports written by the race runtime (GORACE=log_path=...)
	if lp := os.Getenv("VERIF_RACE_LOG"); lp != "" {
		time.Sleep(200 * time.Millisecond)
		files, _ := filepath.Glob(lp + "*")
		for _, fn := range files {
			b, err := os.ReadFile(fn)
			if err != nil {
				continue
			}
			for _, rep := range strings.Split(string(b), "==================") {
				if !strings.Contains(rep, "DATA RACE") {
					continue
				}
				site := ""
				for _, ln := range strings.Split(rep, "\n") {
					if strings.Contains(ln, "lunar-go/") && strings.Contains(ln, "()") {
						site = strings.TrimSpace(ln)
						break
					}
				}
				c.emit(obj{"ev": "C09Race", "site": site})
			}
		}
	}
}

// totality of the year computation (it runs under the lock, which has no deferred unlock)
func c09Total(c *ctx) {
	singleThreaded = false
	lo, hi := -2000, 12000
	bad := [][]interface{}{}
	n := 0
	for y := lo; y <= hi; y++ {
		if !c.mine(y) {
			continue
		}
		n++
		p, msg := try(func() { calendar.NewLunarYear(y) })
		if p {
			bad = append(bad, []interface{}{y, msg})
			break // the lock is now held for ever in this process
		}
	}
	lf := 0
	if len(bad) == 0 {
		lf = b2i(calendar.VerifLockFree())
	}
	c.emit(obj{"ev": "C09Total", "lo": lo, "hi": hi, "n": n, "panics": bad, "lockfree": lf})
}

func init() {
	cmds["c09total"] = c09Total
	cmds["c09sched"] = c09Sched
	cmds["c09hist"] = c09Hist
	cmds["c09stress"] = c09Stress
}
