package main

import (
	"crypto/sha1"
	"fmt"
	"reflect"
	"strings"

	"github.com/6tail/lunar-go/HolidayUtil"
	"github.com/6tail/lunar-go/calendar"
)

// c09 purity: every public method that is not a setter is called twice on sample objects of every type, with a
// digest of ALL accessors of the receiver taken before and after.  A call must not change its receiver and the
// same call must give the same result twice.  Nothing is compared here.

func sha12(s string) string {
	h := sha1.Sum([]byte(s))
	return fmt.Sprintf("%x", h[:])[:12]
}

// argument tuples tried for a method whose parameters are all int / bool
func pureArgs(mt reflect.Type) [][]reflect.Value {
	n := mt.NumIn()
	sets := [][]int{{1, 1, 1, 1, 1, 1}, {-1, 0, -1, 0, -1, 0}, {0, 1, 0, 1, 0, 1}, {13, 1, 13, 1, 13, 1}}
	out := [][]reflect.Value{}
	for _, s := range sets {
		args := []reflect.Value{}
		ok := true
		for i := 0; i < n; i++ {
			switch mt.In(i).Kind() {
			case reflect.Int:
				args = append(args, reflect.ValueOf(s[i]))
			case reflect.Bool:
				args = append(args, reflect.ValueOf(s[i] > 0))
			default:
				ok = false
			}
		}
		if !ok {
			return nil
		}
		out = append(out, args)
		if n == 0 {
			break
		}
	}
	return out
}

func c09Pure(c *ctx) {
	moments := [][6]int{{2024, 2, 10, 23, 30, 0}, {2020, 5, 23, 10, 0, 0}, {2033, 12, 25, 12, 0, 0}, {1582, 10, 4, 22, 59, 59}, {2020, 1, 1, 0, 0, 0},
		{2016, 2, 7, 12, 0, 0}, {2024, 1, 31, 8, 0, 0}, {237, 2, 11, 12, 0, 0}, {2020, 7, 20, 9, 30, 0}, {9998, 12, 31, 23, 59, 59}}
	// days that hold a term, one hour before the term's instant (day-level and to-the-second lookups differ there)
	for _, ty := range []int{2022, 1 + c.rng.Intn(9000)} {
		try(func() {
			s0, _ := safeSolar(ty, 6, 15, 12, 0, 0)
			for i, row := range termTable(s0.GetLunar()) {
				if len(row) == 7 && row[1].(int) == ty && row[4].(int) >= 2 && (i == 9 || i == 18) {
					moments = append(moments, [6]int{ty, row[2].(int), row[3].(int), row[4].(int) - 1, row[5].(int), row[6].(int)})
				}
			}
		})
	}
	for k := 0; k < c.argInt("moments", 14); k++ {
		h, mi, se := hms(c.rng.Intn(86400))
		moments = append(moments, [6]int{1 + c.rng.Intn(9998), 1 + c.rng.Intn(12), 1 + c.rng.Intn(28), h, mi, se})
	}
	for mi, m := range moments {
		if !c.mine(mi) {
			continue
		}
		s, bad := safeSolar(m[0], m[1], m[2], m[3], m[4], m[5])
		if bad {
			continue
		}
		// one factory per type: a fresh object for the same moment every time it is asked
		lunarOf := func() *calendar.Lunar { s2, _ := safeSolar(m[0], m[1], m[2], m[3], m[4], m[5]); return s2.GetLunar() }
		fac := map[string]func() interface{}{
			"Solar":         func() interface{} { s2, _ := safeSolar(m[0], m[1], m[2], m[3], m[4], m[5]); return s2 },
			"Lunar":         func() interface{} { return lunarOf() },
			"EightChar":     func() interface{} { return lunarOf().GetEightChar() },
			"LunarTime":     func() interface{} { return lunarOf().GetTime() },
			"LunarYear":     func() interface{} { return calendar.NewLunarYear(lunarOf().GetYear()) },
			"LunarMonth":    func() interface{} { l := lunarOf(); return calendar.NewLunarMonthFromYm(l.GetYear(), l.GetMonth()) },
			"Tao":           func() interface{} { return lunarOf().GetTao() },
			"Foto":          func() interface{} { return lunarOf().GetFoto() },
			"SolarWeek":     func() interface{} { return calendar.NewSolarWeekFromYmd(m[0], m[1], m[2], 1) },
			// week starts outside 0..6 are taken as they come: whatever the unit makes of them, reading it does not change it
			"SolarWeek(start=-1)": func() interface{} { return calendar.NewSolarWeekFromYmd(m[0], m[1], m[2], -1) },
			"SolarWeek(start=8)":  func() interface{} { return calendar.NewSolarWeekFromYmd(m[0], m[1], m[2], 8) },
			"SolarMonth":    func() interface{} { return calendar.NewSolarMonthFromYm(m[0], m[1]) },
			"SolarYear":     func() interface{} { return calendar.NewSolarYearFromYear(m[0]) },
			"SolarSeason":   func() interface{} { return calendar.NewSolarSeasonFromYm(m[0], m[1]) },
			"SolarHalfYear": func() interface{} { return calendar.NewSolarHalfYearFromYm(m[0], m[1]) },
			"NineStar":      func() interface{} { return lunarOf().GetDayNineStar() },
			"JieQi":         func() interface{} { return lunarOf().GetPrevJieQi() },
			"Yun":           func() interface{} { return lunarOf().GetEightChar().GetYun(1) },
			"DaYun":         func() interface{} { return lunarOf().GetEightChar().GetYun(1).GetDaYun()[1] },
			"LiuNian":       func() interface{} { return lunarOf().GetEightChar().GetYun(1).GetDaYun()[1].GetLiuNian()[0] },
			"ShuJiu":        func() interface{} { return lunarOf().GetShuJiu() },
			"Fu":            func() interface{} { return lunarOf().GetFu() },
			"Holiday":       func() interface{} { return HolidayUtil.GetHoliday(s.ToYmd()) },
		}
		objs := map[string]interface{}{}
		for tn, f := range fac {
			try(func() {
				x := f()
				if v := reflect.ValueOf(x); v.IsValid() && !(v.Kind() == reflect.Ptr && v.IsNil()) {
					objs[tn] = x
				}
			})
		}
		rows := [][]interface{}{}
		// objects the caller holds while unrelated work goes on (tables of other years, other dates, holiday queries)
		heldBefore := map[string]string{}
		for tn, x := range objs {
			heldBefore[tn] = digest(x, nil)
		}
		try(func() {
			for _, dy := range []int{1, -1, 7, 60} {
				if y2 := m[0] + dy; y2 >= 1 && y2 <= 9998 {
					calendar.NewLunarYear(y2)
					s2, _ := safeSolar(y2, 1+(m[1]+3)%12, 11, 23, 30, 0)
					lunarDigest(s2.GetLunar())
					calendar.NewLunarMonthFromYm(y2, 12).Next(2)
				}
			}
			HolidayUtil.GetHolidaysByYear(2020)
		})
		for tn, x := range objs {
			rows = append(rows, []interface{}{tn, "(held while other years and dates are computed)", "", heldBefore[tn], digest(x, nil), "", "", 0})
		}
		for tn, x := range objs {
			v := reflect.ValueOf(x)
			if !v.IsValid() || (v.Kind() == reflect.Ptr && v.IsNil()) {
				continue
			}
			t := v.Type()
			// every zero-argument accessor alone on a fresh object, against the same accessor after all the others were
			// called (twice over, in method order) on another object
			if f, ok := fac[tn]; ok {
				seq := f()
				fwd := callZeroArg(seq, nil)
				again := callZeroArg(seq, nil)
				for gi := len(fwd) - 1; gi >= 0; gi-- {
					g := fwd[gi]
					iso, after, second := "", g.render, again[gi].render
					if g.panic {
						after = "PANIC " + g.msg
					}
					if again[gi].panic {
						second = "PANIC " + again[gi].msg
					}
					try(func() {
						fresh := reflect.ValueOf(f())
						p, msg := try(func() { iso = render(fresh.MethodByName(g.name).Call(nil)[0], 0) })
						if p {
							iso = "PANIC " + msg
						}
					})
					rows = append(rows, []interface{}{tn, g.name, "alone vs after the others", sha12(iso), sha12(after), sha12(iso), sha12(second), 0})
				}
			}
			// all zero-argument accessors together, twice
			d0 := digest(x, nil)
			d1 := digest(x, nil)
			rows = append(rows, []interface{}{tn, "(all zero-argument accessors)", "", d0, d1, d0, d1, 0})
			for i := 0; i < t.NumMethod(); i++ {
				mt := t.Method(i)
				if strings.HasPrefix(mt.Name, "Set") || mt.Type.NumIn() < 2 || mt.Type.NumOut() < 1 {
					continue
				}
				ft := v.Method(i).Type()
				for _, args := range pureArgs(ft) {
					as := []string{}
					for _, a := range args {
						as = append(as, fmt.Sprint(a.Interface()))
					}
					before := digest(x, nil)
					call := func() (r string, p bool) {
						p, msg := try(func() { r = render(v.Method(i).Call(args)[0], 0) })
						if p {
							r = "PANIC " + msg
						}
						return sha12(r), p
					}
					r1, p1 := call()
					r2, _ := call()
					after := digest(x, nil)
					rows = append(rows, []interface{}{tn, mt.Name, strings.Join(as, ","), before, after, r1, r2, b2i(p1)})
				}
			}
			// last: the caller calls every setter of every object the accessors hand out (they are the caller's own);
			// the object it holds must still read the same, and so must the fortune computed from it.  (Lists are left
			// alone here: Lunar.GetJieQiList and LunarYear.GetMonths hand out the object's own container, and appending to a
			// container is not a call of the library.)
			if tn != "Holiday" {
				view := func() string {
					d := digest(x, nil) + callZeroArgRotated(x, 0)
					if l, ok := x.(*calendar.Lunar); ok {
						try(func() {
							y := l.GetEightChar().GetYun(1)
							d += callRender(y.GetStartSolar()) + fmt.Sprint(y.GetStartYear(), y.GetStartMonth(), y.GetStartDay(), y.GetDaYun()[1].GetStartYear())
						})
					}
					return sha12(d)
				}
				before := view()
				scribbleWith(x, false)
				rows = append(rows, []interface{}{tn, "(every object handed out)", "written through", before, view(), "", "", 0})
			}
		}
		c.emit(obj{"ev": "C09Pure", "at": m[:], "rows": rows})
	}
}

func init() { cmds["c09pure"] = c09Pure }
