package main

import (
	"crypto/sha1"
	"fmt"
	"reflect"
	"strings"

	"github.com/6tail/lunar-go/HolidayUtil"
	"github.com/6tail/lunar-go/calendar"
)

// c09 purity: every public method that is not a setter is called twice on sample objects of every type, with a
// digest of ALL accessors of the receiver taken before and after.  A call must not change its receiver and the
// same call must give the same result twice.  Nothing is compared here.

func sha12(s string) string {
	h := sha1.Sum([]byte(s))
	return fmt.Sprintf("%x", h[:])[:12]
}

// argument tuples tried for a method whose parameters are all int / bool
func pureArgs(mt reflect.Type) [][]reflect.Value {
	n := mt.NumIn()
	sets := [][]int{{1, 1, 1, 1, 1, 1}, {-1, 0, -1, 0, -1, 0}, {0, 1, 0, 1, 0, 1}, {13, 1, 13, 1, 13, 1}}
	out := [][]reflect.Value{}
	for _, s := range sets {
		args := []reflect.Value{}
		ok := true
		for i := 0; i < n; i++ {
			switch mt.In(i).Kind() {
			case reflect.Int:
				args = append(args, reflect.ValueOf(s[i]))
			case reflect.Bool:
				args = append(args, reflect.ValueOf(s[i] > 0))
			default:
				ok = false
			}
		}
		if !ok {
			return nil
		}
		out = append(out, args)
		if n == 0 {
			break
		}
	}
	return out
}

func c09Pure(c *ctx) {
	moments := [][6]int{{2024, 2, 10, 23, 30, 0}, {2020, 5, 23, 10, 0, 0}, {2033, 12, 25, 12, 0, 0}, {1582, 10, 4, 22, 59, 59}, {2020, 1, 1, 0, 0, 0},
		{2016, 2, 7, 12, 0, 0}, {2024, 1, 31, 8, 0, 0}, {237, 2, 11, 12, 0, 0}, {2020, 7, 20, 9, 30, 0}, {9998, 12, 31, 23, 59, 59}}
	for k := 0; k < c.argInt("moments", 14); k++ {
		h, mi, se := hms(c.rng.Intn(86400))
		moments = append(moments, [6]int{1 + c.rng.Intn(9998), 1 + c.rng.Intn(12), 1 + c.rng.Intn(28), h, mi, se})
	}
	for mi, m := range moments {
		if !c.mine(mi) {
			continue
		}
		s, bad := safeSolar(m[0], m[1], m[2], m[3], m[4], m[5])
		if bad {
			continue
		}
		objs := map[string]interface{}{}
		try(func() {
			l := s.GetLunar()
			ec := l.GetEightChar()
			objs["Solar"], objs["Lunar"], objs["EightChar"], objs["LunarTime"] = s, l, ec, l.GetTime()
			objs["LunarYear"] = calendar.NewLunarYear(l.GetYear())
			objs["LunarMonth"] = calendar.NewLunarMonthFromYm(l.GetYear(), l.GetMonth())
			objs["Tao"], objs["Foto"] = l.GetTao(), l.GetFoto()
			objs["SolarWeek"] = calendar.NewSolarWeekFromYmd(m[0], m[1], m[2], 1)
			objs["SolarMonth"] = calendar.NewSolarMonthFromYm(m[0], m[1])
			objs["SolarYear"] = calendar.NewSolarYearFromYear(m[0])
			objs["SolarSeason"] = calendar.NewSolarSeasonFromYm(m[0], m[1])
			objs["SolarHalfYear"] = calendar.NewSolarHalfYearFromYm(m[0], m[1])
			objs["NineStar"] = l.GetDayNineStar()
			objs["JieQi"] = l.GetPrevJieQi()
			yun := ec.GetYun(1)
			objs["Yun"] = yun
			dys := yun.GetDaYun()
			if len(dys) > 1 {
				objs["DaYun"] = dys[1]
				if ln := dys[1].GetLiuNian(); len(ln) > 0 {
					objs["LiuNian"] = ln[0]
				}
			}
			if sj := l.GetShuJiu(); sj != nil {
				objs["ShuJiu"] = sj
			}
			if fu := l.GetFu(); fu != nil {
				objs["Fu"] = fu
			}
			if h := HolidayUtil.GetHoliday(s.ToYmd()); h != nil {
				objs["Holiday"] = h
			}
		})
		rows := [][]interface{}{}
		for tn, x := range objs {
			v := reflect.ValueOf(x)
			if !v.IsValid() || (v.Kind() == reflect.Ptr && v.IsNil()) {
				continue
			}
			t := v.Type()
			// all zero-argument accessors together, twice
			d0 := digest(x, nil)
			d1 := digest(x, nil)
			rows = append(rows, []interface{}{tn, "(all zero-argument accessors)", "", d0, d1, d0, d1, 0})
			for i := 0; i < t.NumMethod(); i++ {
				mt := t.Method(i)
				if strings.HasPrefix(mt.Name, "Set") || mt.Type.NumIn() < 2 || mt.Type.NumOut() < 1 {
					continue
				}
				ft := v.Method(i).Type()
				for _, args := range pureArgs(ft) {
					as := []string{}
					for _, a := range args {
						as = append(as, fmt.Sprint(a.Interface()))
					}
					before := digest(x, nil)
					call := func() (r string, p bool) {
						p, msg := try(func() { r = render(v.Method(i).Call(args)[0], 0) })
						if p {
							r = "PANIC " + msg
						}
						return sha12(r), p
					}
					r1, p1 := call()
					r2, _ := call()
					after := digest(x, nil)
					rows = append(rows, []interface{}{tn, mt.Name, strings.Join(as, ","), before, after, r1, r2, b2i(p1)})
				}
			}
		}
		c.emit(obj{"ev": "C09Pure", "at": m[:], "rows": rows})
	}
}

func init() { cmds["c09pure"] = c09Pure }
