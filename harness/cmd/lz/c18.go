package main

import (
	"github.com/6tail/lunar-go/LunarUtil"
	"github.com/6tail/lunar-go/calendar"
)

// c18 laws: the mansions day by day, duty god, clash branch; the nayin table
func c18Laws(c *ctx) {
	years := c.yearsFor([]int{1, 1500, 1582, 1583, 2000, 2024, 9998}, c.argInt("years", 60), 1, 9998)
	if c.shard == 0 {
		ny := [][]interface{}{}
		for k, gz := range LunarUtil.JIA_ZI {
			n := LunarUtil.NAYIN[gz]
			r := []rune(n)
			last := ""
			if len(r) > 0 {
				last = string(r[len(r)-1])
			}
			ny = append(ny, []interface{}{k, gz, n, last})
		}
		c.emit(obj{"ev": "C18NaYin", "t": ny})
	}
	for _, y := range years {
		if !c.mine(y) {
			continue
		}
		rows := [][]interface{}{}
		everyDay(y, func(s *calendar.Solar, extra bool) {
			try(func() {
				l := s.GetLunar()
				rows = append(rows, []interface{}{s.GetYear(), s.GetMonth(), s.GetDay(), l.GetXiu(), l.GetWeek(), l.GetDayZhiIndex(), l.GetMonthZhiIndex(),
					l.GetZhiXing(), l.GetDayChong(), l.GetTimeChong(), l.GetTimeZhiIndex(), s.GetWeek()})
			})
		})
		c.emit(obj{"ev": "C18Laws", "y": y, "rows": rows})
	}
}

func init() { cmds["c18laws"] = c18Laws }
