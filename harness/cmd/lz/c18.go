package main

import (
	"github.com/6tail/lunar-go/LunarUtil"
	"github.com/6tail/lunar-go/calendar"
)

// c18 laws: the mansions day by day, duty god, clash branch; the nayin table
func c18Laws(c *ctx) {
	years := c.yearsFor([]int{1, 1500, 1582, 1583, 2000, 2024, 9998}, c.argInt("years", 60), 1, 9998)
	if c.shard == 0 {
		ny := [][]interface{}{}
		for k, gz := range LunarUtil.JIA_ZI {
			n := LunarUtil.NAYIN[gz]
			r := []rune(n)
			last := ""
			if len(r) > 0 {
				last = string(r[len(r)-1])
			}
			ny = append(ny, []interface{}{k, gz, n, last})
		}
		c.emit(obj{"ev": "C18NaYin", "t": ny})
	}
	for _, y := range years {
		if !c.mine(y) {
			continue
		}
		rows := [][]interface{}{}
		everyDay(y, func(s *calendar.Solar, extra bool) {
			try(func() {
				l := s.GetLunar()
				rows = append(rows, []interface{}{s.GetYear(), s.GetMonth(), s.GetDay(), l.GetXiu(), l.GetWeek(), l.GetDayZhiIndex(), l.GetMonthZhiIndex(),
					l.GetZhiXing(), l.GetDayChong(), l.GetTimeChong(), l.GetTimeZhiIndex(), s.GetWeek(),
					// extension (classical rules behind table-driven attributes; EXT.almanac.*)
					l.GetDayTianShen(), l.GetDayTianShenType(), l.GetDayTianShenLuck(), l.GetDaySha(), l.GetLiuYao(), l.GetMonth(), l.GetDay(),
					l.GetDayGanIndex(), l.GetDayPositionXi(), l.GetDayChongGan()})
			})
		})
		c.emit(obj{"ev": "C18Laws", "y": y, "rows": rows})
	}
}

func init() { cmds["c18laws"] = c18Laws }

// c18 pairs: a table lookup must not depend on the lookup made before it. Every ordered pair of
// (lunar month, day pillar) keys for the spirit lists, sampled predecessors for the suitable/avoid lists;
// the values seen for each key are grouped (one value per key is the specification's demand).
func c18Pairs(c *ctx) {
	groups := map[string]map[string]bool{}
	note := func(attr, key, val string) {
		k := attr + "|" + key
		if groups[k] == nil {
			groups[k] = map[string]bool{}
		}
		groups[k][val] = true
	}
	type key2 struct {
		m  int
		gz string
	}
	keys := []key2{}
	for m := 1; m <= 12; m++ {
		for _, gz := range LunarUtil.JIA_ZI {
			keys = append(keys, key2{m, gz})
		}
	}
	for i1, k1 := range keys {
		if !c.mine(i1) {
			continue
		}
		for _, k2 := range keys {
			LunarUtil.GetDayJiShen(k1.m, k1.gz)
			note("LunarUtil.GetDayJiShen", render1(k2.m)+","+k2.gz, render1(LunarUtil.GetDayJiShen(k2.m, k2.gz)))
			LunarUtil.GetDayXiongSha(k1.m, k1.gz)
			note("LunarUtil.GetDayXiongSha", render1(k2.m)+","+k2.gz, render1(LunarUtil.GetDayXiongSha(k2.m, k2.gz)))
		}
	}
	// a leap month is the month whose number it repeats: the same spirits under the same key
	for i1, k1 := range keys {
		if !c.mine(i1) {
			continue
		}
		note("LunarUtil.GetDayJiShen", render1(k1.m)+","+k1.gz, render1(LunarUtil.GetDayJiShen(-k1.m, k1.gz)))
		note("LunarUtil.GetDayXiongSha", render1(k1.m)+","+k1.gz, render1(LunarUtil.GetDayXiongSha(-k1.m, k1.gz)))
	}
	np := c.argInt("pred", 30)
	for ia, a := range LunarUtil.JIA_ZI {
		if !c.mine(ia) {
			continue
		}
		for _, b := range LunarUtil.JIA_ZI {
			for i := 0; i < np; i++ {
				p1, p2 := LunarUtil.JIA_ZI[c.rng.Intn(60)], LunarUtil.JIA_ZI[c.rng.Intn(60)]
				LunarUtil.GetDayYi(p1, p2)
				note("LunarUtil.GetDayYi", a+","+b, render1(LunarUtil.GetDayYi(a, b)))
				LunarUtil.GetDayJi(p1, p2)
				note("LunarUtil.GetDayJi", a+","+b, render1(LunarUtil.GetDayJi(a, b)))
				LunarUtil.GetTimeYi(p1, p2)
				note("LunarUtil.GetTimeYi", a+","+b, render1(LunarUtil.GetTimeYi(a, b)))
				LunarUtil.GetTimeJi(p1, p2)
				note("LunarUtil.GetTimeJi", a+","+b, render1(LunarUtil.GetTimeJi(a, b)))
			}
		}
	}
	batch := []obj{}
	for k, vs := range groups {
		vals := []string{}
		for v := range vs {
			vals = append(vals, v)
		}
		i := 0
		for j := range k {
			if k[j] == '|' {
				i = j
				break
			}
		}
		batch = append(batch, obj{"attr": k[:i], "key": k[i+1:], "vals": vals, "w": []string{"all / sampled predecessor lookups"}})
		if len(batch) == 500 {
			c.emit(obj{"ev": "FDGroups", "prop": "C18", "g": batch})
			batch = []obj{}
		}
	}
	if len(batch) > 0 {
		c.emit(obj{"ev": "FDGroups", "prop": "C18", "g": batch})
	}
}

func init() { cmds["c18pairs"] = c18Pairs }
