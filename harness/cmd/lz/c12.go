package main

import (
	"github.com/6tail/lunar-go/LunarUtil"
	"github.com/6tail/lunar-go/calendar"
)

func gzIdx(s string) int { return LunarUtil.GetJiaZiIndex(s) }

// c12: fortune periods of birth moments chosen around the delicate places
func c12Births(c *ctx) {
	n := c.argInt("births", 600)
	births := [][6]int{}
	add := func(y, m, d, sod int) {
		if sod < 0 || sod > 86399 {
			return
		}
		h, mi, se := hms(sod)
		if _, bad := safeSolar(y, m, d, h, mi, se); !bad {
			births = append(births, [6]int{y, m, d, h, mi, se})
		}
	}
	// Jie instants +-1 s / +-1 min, the 23:00 edge, 29 Feb, 1582, year 1, year 9990
	for _, y := range []int{1, 2, 100, 1582, 1583, 1900, 1984, 2000, 2012, 2020, 2024, 9990} {
		s0, _ := safeSolar(y, 6, 15, 12, 0, 0)
		tab := termTable(s0.GetLunar())
		for i, row := range tab {
			if len(row) < 7 || i%2 == 1 || row[1].(int) != y {
				continue
			}
			sod := row[4].(int)*3600 + row[5].(int)*60 + row[6].(int)
			for _, ds := range []int{0, -1, 1, -60, 60, -3600, 3600} {
				add(y, row[2].(int), row[3].(int), sod+ds)
			}
			add(y, row[2].(int), row[3].(int), 0)
			add(y, row[2].(int), row[3].(int), 86399)
		}
		add(y, 2, 29, 43200)
		add(y, 10, 4, 82800)
		add(y, 10, 15, 100)
		add(y, 12, 31, 86399)
		add(y, 1, 1, 0)
	}
	for cy := 1700; cy <= 9900; cy += 100 {
		if cy%400 == 0 {
			continue
		}
		for _, back := range []int{4, 8} {
			add(cy-back, 2, 29, 3600*((cy/100)%24)+1234)
		}
	}
	for _, ymd := range [][3]int{{15, 12, 30}, {15, 12, 31}, {18, 12, 27}, {18, 12, 29}, {18, 12, 31}, {16, 1, 1}} {
		add(ymd[0], ymd[1], ymd[2], 43200)
	}
	// births at 23:xx a few days either side of a Jie that itself falls at 23:xx (both ends in the last hour of their days)
	for y := 1990; y <= 2030; y++ {
		s0, _ := safeSolar(y, 6, 15, 12, 0, 0)
		for i, row := range termTable(s0.GetLunar()) {
			if len(row) < 7 || i%2 == 1 || row[1].(int) != y || row[4].(int) != 23 {
				continue
			}
			j, _ := safeSolar(y, row[2].(int), row[3].(int), 12, 0, 0)
			for _, dd := range []int{-9, -3, 2, 11} {
				b := j.NextDay(dd)
				add(b.GetYear(), b.GetMonth(), b.GetDay(), 82800+600+(dd+9)*97)
			}
		}
	}
	// births in the ten years before October 1582 on the day numbers that month lacks (5..14): a start of fortune
	// "birth + years + months" can land on them
	for y := 1572; y <= 1582; y++ {
		for mo := 1; mo <= 12; mo++ {
			for d := 5; d <= 14; d++ {
				if (y*12+mo+d)%3 == int(c.seed%3) || c.tier == "thorough" {
					add(y, mo, d, 43200)
				}
			}
		}
	}
	fixed := len(births)
	for len(births) < fixed+n {
		y := 1 + c.rng.Intn(9990)
		if c.rng.Intn(2) == 0 {
			y = 1900 + c.rng.Intn(200)
		}
		sod := c.rng.Intn(86400)
		if c.rng.Intn(4) == 0 {
			sod = []int{82800, 86399, 0, 3599, 3600, 82799}[c.rng.Intn(6)]
		}
		add(y, 1+c.rng.Intn(12), 1+c.rng.Intn(31), sod)
	}
	for i, b := range births {
		if !c.mine(i) {
			continue
		}
		s, _ := safeSolar(b[0], b[1], b[2], b[3], b[4], b[5])
		f := obj{"ev": "C12Birth", "at": b[:]}
		p, _ := try(func() {
			l := s.GetLunar()
			ec := l.GetEightChar()
			if b[3] == 23 && i%2 == 0 {
				// the chart's day-boundary convention is a different option from the start-offset school: it moves
				// the day pillar of a late-rat-hour birth and nothing of the fortune
				ec.SetSect(1)
				f["csect"] = 1
			}
			f["pj"] = sol(l.GetPrevJie().GetSolar())
			f["nj"] = sol(l.GetNextJie().GetSolar())
			f["ygx"] = l.GetYearGanIndexExact()
			f["mgz"] = gzIdx(l.GetMonthInGanZhiExact())
			f["hgz"] = gzIdx(l.GetTimeInGanZhi())
			charts := []obj{}
			for _, gender := range []int{1, 0} {
				for _, sect := range []int{1, 2} {
					ch := obj{"g": gender, "s": sect}
					pc, _ := try(func() {
						var yun *calendar.Yun
						if sect == 1 && gender == 1 {
							yun = ec.GetYun(gender) // the default school is documented as school 1
						} else {
							yun = ec.GetYunBySect(gender, sect)
						}
						ch["fwd"] = b2i(yun.IsForward())
						ch["st"] = []int{yun.GetStartYear(), yun.GetStartMonth(), yun.GetStartDay(), yun.GetStartHour()}
						ch["ss"] = sol(yun.GetStartSolar())
						ch["gg"] = yun.GetGender()
						if f["csect"] == 1 {
							// the same fortune asked of a fresh chart left on its default convention
							y2 := s.GetLunar().GetEightChar().GetYunBySect(gender, sect)
							ch["st2"] = []int{y2.GetStartYear(), y2.GetStartMonth(), y2.GetStartDay(), y2.GetStartHour()}
						}
						dys := []obj{}
						dyl := yun.GetDaYun()
						if i%5 == 2 {
							// more periods than the default ten: the rules do not stop there
							ch["dyn"] = 14
							dyl = yun.GetDaYunBy(14)
						}
						for _, dy := range dyl {
							o := obj{"v": []int{dy.GetStartYear(), dy.GetEndYear(), dy.GetStartAge(), dy.GetEndAge(), dy.GetIndex(), gzIdx(dy.GetGanZhi())}}
							ln := [][]int{}
							for _, x := range dy.GetLiuNian() {
								ln = append(ln, []int{x.GetIndex(), x.GetYear(), x.GetAge(), gzIdx(x.GetGanZhi())})
							}
							o["ln"] = ln
							xy := [][]int{}
							for _, x := range dy.GetXiaoYun() {
								xy = append(xy, []int{x.GetIndex(), x.GetYear(), x.GetAge(), gzIdx(x.GetGanZhi())})
							}
							o["xy"] = xy
							if dy.GetIndex() == 1 || dy.GetIndex() == 4 {
								lns := dy.GetLiuNian()
								if len(lns) > 2 {
									ly := [][]interface{}{}
									for _, m := range lns[2].GetLiuYue() {
										ly = append(ly, []interface{}{m.GetIndex(), m.GetMonthInChinese(), gzIdx(m.GetGanZhi())})
									}
									o["ly"] = ly
									o["lyof"] = gzIdx(lns[2].GetGanZhi())
								}
							}
							dys = append(dys, o)
						}
						ch["dy"] = dys
					})
					ch["p"] = b2i(pc)
					charts = append(charts, ch)
				}
			}
			f["ch"] = charts
		})
		f["p"] = b2i(p)
		c.emit(f)
	}
}

func init() { cmds["c12births"] = c12Births }
