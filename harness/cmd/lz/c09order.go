package main

import (
	"crypto/sha1"
	"fmt"
	"sort"

	"github.com/6tail/lunar-go/HolidayUtil"
	"github.com/6tail/lunar-go/LunarUtil"
	"github.com/6tail/lunar-go/calendar"
)

// c09 orders: the same battery of lookups and conversions is executed by several PROCESSES, each in its own order
// (day tables before hour tables or after, ascending or descending keys, interleaved); every process reports one
// digest per family taken over the results in canonical key order.  A process-wide memo that lets an earlier
// lookup decide a later one makes the processes disagree.  Nothing is compared here.
func c09Orders(c *ctx) {
	type job struct {
		fam, key string
		run      func() string
	}
	jobs := []job{}
	gz := LunarUtil.JIA_ZI
	for a := 0; a < 60; a++ {
		for b := 0; b < 60; b++ {
			a, b := a, b
			k := fmt.Sprintf("%02d,%02d", a, b)
			jobs = append(jobs,
				job{"dayYi", k, func() string { return callRender(LunarUtil.GetDayYi(gz[a], gz[b])) }},
				job{"dayJi", k, func() string { return callRender(LunarUtil.GetDayJi(gz[a], gz[b])) }},
				job{"timeYi", k, func() string { return callRender(LunarUtil.GetTimeYi(gz[a], gz[b])) }},
				job{"timeJi", k, func() string { return callRender(LunarUtil.GetTimeJi(gz[a], gz[b])) }})
		}
	}
	for m := 1; m <= 12; m++ {
		for b := 0; b < 60; b++ {
			m, b := m, b
			k := fmt.Sprintf("%02d,%02d", m, b)
			jobs = append(jobs,
				job{"jiShen", k, func() string { return callRender(LunarUtil.GetDayJiShen(m, gz[b])) }},
				job{"xiongSha", k, func() string { return callRender(LunarUtil.GetDayXiongSha(m, gz[b])) }})
		}
	}
	for y := 2000; y < 2040; y++ {
		y := y
		jobs = append(jobs,
			job{"year", fmt.Sprint(y), func() string { return yearDigest(calendar.NewLunarYear(y)) }},
			job{"lunar", fmt.Sprint(y), func() string {
				s, _ := safeSolar(y, 1+y%12, 1+y%28, 23, 30, 0)
				return lunarDigest(s.GetLunar())
			}},
			job{"holiday", fmt.Sprint(y), func() string {
				return callRender(HolidayUtil.GetHolidaysByYear(y)) + callRender(HolidayUtil.GetHolidaysByTarget(fmt.Sprintf("%d-10-01", y)))
			}})
	}
	// the order of this process
	n := len(jobs)
	idx := make([]int, n)
	for i := range idx {
		idx[i] = i
	}
	mode := c.shard % 4
	switch mode {
	case 1: // descending
		for i := range idx {
			idx[i] = n - 1 - i
		}
	case 2: // family by family, the hour tables first
		rank := map[string]int{"timeYi": 0, "timeJi": 1, "xiongSha": 2, "jiShen": 3, "dayJi": 4, "dayYi": 5, "holiday": 6, "lunar": 7, "year": 8}
		sort.SliceStable(idx, func(i, j int) bool { return rank[jobs[idx[i]].fam] < rank[jobs[idx[j]].fam] })
	case 3: // a fixed shuffle
		c.rng.Shuffle(n, func(i, j int) { idx[i], idx[j] = idx[j], idx[i] })
	}
	res := map[string]map[string]string{}
	for _, i := range idx {
		j := jobs[i]
		var out string
		p, msg := try(func() { out = j.run() })
		if p {
			out = "PANIC " + msg
		}
		if res[j.fam] == nil {
			res[j.fam] = map[string]string{}
		}
		res[j.fam][j.key] = out
	}
	fams := []string{}
	for f := range res {
		fams = append(fams, f)
	}
	sort.Strings(fams)
	out := [][]string{}
	for _, f := range fams {
		keys := []string{}
		for k := range res[f] {
			keys = append(keys, k)
		}
		sort.Strings(keys)
		h := sha1.New()
		for _, k := range keys {
			fmt.Fprintf(h, "%s=%s;", k, res[f][k])
		}
		out = append(out, []string{f, fmt.Sprintf("%x", h.Sum(nil))[:16]})
	}
	c.emit(obj{"ev": "C09OrderProc", "mode": mode, "fam": out})
}

func init() { cmds["c09orders"] = c09Orders }
