package main

import (
	"container/list"
	"fmt"
	"sort"
	"strings"

	"github.com/6tail/lunar-go/SolarUtil"
)

var c20Boundary = []int{1, 4, 1582, 1600, 1900, 2000, 2001, 2003, 2007, 2008, 2012, 2014, 2018, 2020, 2024, 2025, 9998}

func strList(l *list.List) []string {
	o := []string{}
	for i := l.Front(); i != nil; i = i.Next() {
		o = append(o, fmt.Sprint(i.Value))
	}
	return o
}

// the library's own festival definitions, keys parsed to integers (the
// definitions are data; the rule that applies them is the specification's)
func c20Rules(c *ctx) {
	fixed := [][]interface{}{}
	for k, v := range SolarUtil.FESTIVAL {
		var m, d int
		fmt.Sscanf(k, "%d-%d", &m, &d)
		fixed = append(fixed, []interface{}{m, d, v})
	}
	week := [][]interface{}{}
	for k, v := range SolarUtil.WEEK_FESTIVAL {
		var m, n, w int
		fmt.Sscanf(k, "%d-%d-%d", &m, &n, &w)
		week = append(week, []interface{}{m, n, w, v})
	}
	other := [][]interface{}{}
	for k, v := range SolarUtil.OTHER_FESTIVAL {
		var m, d int
		fmt.Sscanf(k, "%d-%d", &m, &d)
		other = append(other, []interface{}{m, d, v})
	}
	less := func(a [][]interface{}) func(i, j int) bool {
		return func(i, j int) bool { return fmt.Sprint(a[i]...) < fmt.Sprint(a[j]...) }
	}
	sort.Slice(fixed, less(fixed))
	sort.Slice(week, less(week))
	sort.Slice(other, less(other))
	c.emit(obj{"ev": "C20Rules", "fixed": fixed, "week": week, "other": other, "zodiac": SolarUtil.XINGZUO})
}

func c20Years(c *ctx) {
	c.header = func() { c20Rules(c) }
	c.inHeader = true
	c20Rules(c)
	c.inHeader = false
	years := c.yearsFor(c20Boundary, c.argInt("years", 100), 1, 9998)
	// plus 28 consecutive years (all 14 year types)
	for y := 2000; y < 2028; y++ {
		years = append(years, y)
	}
	seen := map[int]bool{}
	for _, y := range years {
		if seen[y] || !c.mine(y) {
			continue
		}
		seen[y] = true
		rows := []obj{}
		for m := 1; m <= 12; m++ {
			for d := 1; d <= 31; d++ {
				s, p := safeSolar(y, m, d, 0, 0, 0)
				if p {
					continue
				}
				row := obj{"m": m, "d": d}
				pp, _ := try(func() {
					row["z"] = s.GetXingZuo()
					row["z2"] = s.GetXingzuo()
					row["f"] = strList(s.GetFestivals())
					row["o"] = strList(s.GetOtherFestivals())
					// the one-line description, cut at blanks (the lexing is the driver's, the comparison TLC's)
					row["full"] = strings.Split(s.ToFullString(), " ")
					// the same day a year later, reached by stepping from the object whose festivals (and so weekday) were
					// just asked for: a derived object answers like a constructed one
					if y < 9998 && d%3 == 0 {
						n := s.NextYear(1)
						row["ny"] = []int{n.GetYear(), n.GetMonth(), n.GetDay()}
						row["nz"] = n.GetXingZuo()
						row["nf"] = strList(n.GetFestivals())
					}
				})
				row["p"] = b2i(pp)
				rows = append(rows, row)
			}
		}
		c.emit(obj{"ev": "C20Year", "y": y, "rows": rows})
	}
}

func init() { cmds["c20years"] = c20Years }
