package main

import (
	"fmt"
	"sort"
	"strings"

	"github.com/6tail/lunar-go/LunarUtil"
)

// c11 bazi rules (extension): the derived attributes of charts, keyed by the INDICES of the stems / branches /
// pairs they are derived from, so that BaZiRules.tla can recompute each from the five-element relations.

func idxOf(tab []string, s string) int {
	for i, v := range tab {
		if v == s {
			return i
		}
	}
	return -1
}

func c11BaZi(c *ctx) {
	gan := LunarUtil.GAN[1:]
	zhi := LunarUtil.ZHI[1:]
	set := map[string]map[string]bool{}
	note := func(kind string, row ...interface{}) {
		if set[kind] == nil {
			set[kind] = map[string]bool{}
		}
		b := []string{}
		for _, x := range row {
			b = append(b, fmt.Sprint(x))
		}
		set[kind][strings.Join(b, "\t")] = true
	}
	// seeded moments (a quarter in the 23:00 hour, where the two conventions give different day pillars)
	ms := [][6]int{}
	for len(ms) < c.argInt("moments", 3000) {
		sod := c.rng.Intn(86400)
		if c.rng.Intn(4) == 0 {
			sod = 82800 + c.rng.Intn(3600)
		}
		h, mi, se := hms(sod)
		ms = append(ms, [6]int{1 + c.rng.Intn(9998), 1 + c.rng.Intn(12), 1 + c.rng.Intn(28), h, mi, se})
	}
	for i, m := range ms {
		if !c.mine(i) {
			continue
		}
		s, bad := safeSolar(m[0], m[1], m[2], m[3], m[4], m[5])
		if bad {
			continue
		}
		try(func() {
			l := s.GetLunar()
			ec := l.GetEightChar()
			for _, sect := range []int{2, 1} {
				ec.SetSect(sect)
				d := idxOf(gan, ec.GetDayGan())
				type pil struct {
					g, z                          string
					wx, ny, ssg, dishi, xun, kong string
					ssz, hide                     []string
				}
				ps := []pil{
					{ec.GetYearGan(), ec.GetYearZhi(), ec.GetYearWuXing(), ec.GetYearNaYin(), ec.GetYearShiShenGan(), ec.GetYearDiShi(), ec.GetYearXun(), ec.GetYearXunKong(), strList(ec.GetYearShiShenZhi()), ec.GetYearHideGan()},
					{ec.GetMonthGan(), ec.GetMonthZhi(), ec.GetMonthWuXing(), ec.GetMonthNaYin(), ec.GetMonthShiShenGan(), ec.GetMonthDiShi(), ec.GetMonthXun(), ec.GetMonthXunKong(), strList(ec.GetMonthShiShenZhi()), ec.GetMonthHideGan()},
					{ec.GetDayGan(), ec.GetDayZhi(), ec.GetDayWuXing(), ec.GetDayNaYin(), "", ec.GetDayDiShi(), ec.GetDayXun(), ec.GetDayXunKong(), strList(ec.GetDayShiShenZhi()), ec.GetDayHideGan()},
					{ec.GetTimeGan(), ec.GetTimeZhi(), ec.GetTimeWuXing(), ec.GetTimeNaYin(), ec.GetTimeShiShenGan(), ec.GetTimeDiShi(), ec.GetTimeXun(), ec.GetTimeXunKong(), strList(ec.GetTimeShiShenZhi()), ec.GetTimeHideGan()},
				}
				for _, p := range ps {
					g, z := idxOf(gan, p.g), idxOf(zhi, p.z)
					k := LunarUtil.GetJiaZiIndex(p.g + p.z)
					note("wx", g, z, p.wx)
					note("xk", k, p.xun, p.kong, p.ny)
					if p.ssg != "" {
						note("tg", d, g, p.ssg)
					}
					note("ds", d, z, p.dishi)
					note("tgz", d, z, strings.Join(p.ssz, ","))
					note("hg", z, strings.Join(p.hide, ","))
				}
				mg, mz := idxOf(gan, ec.GetMonthGan()), idxOf(zhi, ec.GetMonthZhi())
				note("ty", mg, mz, ec.GetTaiYuan(), ec.GetTaiYuanNaYin())
				dg, dz := idxOf(gan, ec.GetDayGan()), idxOf(zhi, ec.GetDayZhi())
				note("tx", dg, dz, ec.GetTaiXi(), ec.GetTaiXiNaYin())
			}
		})
	}
	out := obj{"ev": "BzRules"}
	for _, kind := range []string{"wx", "xk", "tg", "ds", "tgz", "hg", "ty", "tx"} {
		keys := []string{}
		for k := range set[kind] {
			keys = append(keys, k)
		}
		sort.Strings(keys)
		rows := [][]interface{}{}
		for _, k := range keys {
			f := strings.Split(k, "\t")
			row := []interface{}{}
			for j, x := range f {
				nInt := map[string]int{"wx": 2, "xk": 1, "tg": 2, "ds": 2, "tgz": 2, "hg": 1, "ty": 2, "tx": 2}[kind]
				if j < nInt {
					row = append(row, atoi(x))
				} else if kind == "tgz" || kind == "hg" {
					if x == "" {
						row = append(row, []string{})
					} else {
						row = append(row, strings.Split(x, ","))
					}
				} else {
					row = append(row, x)
				}
			}
			rows = append(rows, row)
		}
		out[kind] = rows
	}
	c.emit(out)
}

func init() { cmds["c11bazi"] = c11BaZi }
