package main

import (
	"github.com/6tail/lunar-go/calendar"
)

var c01Boundary = []int{1, 2, 8, 9, 15, 16, 18, 19, 23, 24, 236, 237, 239, 240, 1582, 1583, 1645, 1900, 2020, 2033, 2034, 2129, 2262, 9997, 9998}

func c01Years(c *ctx) {
	years := c.yearsFor(c01Boundary, c.argInt("years", 100), 1, 9998)
	digEvery := c.argInt("digest", 1)
	tods := []int{0, 43200, 82800, 86399, 3599, 82799}
	ns := []int{1, -1, 29, 30, -30, 354, 384, -355}
	for _, y := range years {
		if !c.mine(y) {
			continue
		}
		f := obj{"ev": "C01Year", "y": y}
		p, _ := try(func() { f["t"] = yearTable(y) })
		f["p"] = b2i(p)
		rows := []obj{}
		k := 0
		for m := 1; m <= 12; m++ {
			for d := 1; d <= 31; d++ {
				k++
				sod := tods[k%len(tods)]
				if k%7 == 3 {
					sod = c.rng.Intn(86400)
				}
				h, mi, se := hms(sod)
				s, pp := safeSolar(y, m, d, h, mi, se)
				if pp {
					continue
				}
				row := obj{"c": []int{y, m, d, sod}}
				var a, b *calendar.Lunar
				pa, _ := try(func() { a = s.GetLunar() })
				if pa {
					row["pa"] = 1
					rows = append(rows, row)
					continue
				}
				row["pa"] = 0
				row["a"] = lun(a)
				row["as"] = sol(a.GetSolar())
				pb, _ := try(func() {
					b = calendar.NewLunar(a.GetYear(), a.GetMonth(), a.GetDay(), a.GetHour(), a.GetMinute(), a.GetSecond())
				})
				row["pb"] = b2i(pb)
				if !pb {
					row["b"] = lun(b)
					row["bs"] = sol(b.GetSolar())
					var bl *calendar.Lunar
					pc, _ := try(func() { bl = b.GetSolar().GetLunar() })
					if pc {
						row["bl"] = []int{}
					} else {
						row["bl"] = lun(bl)
					}
					if digEvery <= 1 || k%digEvery == 0 {
						da := digest(a, nil)
						db := digest(b, nil)
						row["da"] = da
						row["db"] = db
						if da != db {
							row["diff"] = firstDiff(a, b, nil) // diagnostic for the reader of a REJECT
						}
					}
				}
				// stepping n days on the lunar side / on the civil side: always +1 and -1, plus a rotating n
				nxs := [][]int{}
				steps := []int{1, -1, ns[k%len(ns)]}
				if k%29 == 0 {
					// now and then a step of a century or so (across century years), either way
					steps = append(steps, 36525+k%1000, -(36525 + k%777))
					if k%58 == 0 {
						// and a whole 400-year cycle and a bit (from the Gregorian era back into the Julian one and the reverse)
						steps = append(steps, 146097+k%4999, -(146097 + k%4001))
					}
				}
				for _, n := range steps {
					if y+n/300 < 1 || y+n/300 > 9998 || (y == 1 && n < 0 && m == 1) || (n > 100000 && y+n/365 > 9990) || (n < -100000 && y+n/365 < 5) {
						continue
					}
					var x, z *calendar.Lunar
					pn, _ := try(func() { x = a.Next(n); z = s.NextDay(n).GetLunar() })
					if pn {
						nxs = append(nxs, []int{n, 1})
					} else {
						j, sd, _ := projJD(x.GetSolar().GetJulianDay())
						nxs = append(nxs, append(append([]int{n, 0}, lun(x)...), append([]int{j, sd}, lun(z)...)...))
					}
				}
				row["nx"] = nxs
				rows = append(rows, row)
			}
		}
		f["rows"] = rows
		c.emit(f)
	}
}

func init() { cmds["c01years"] = c01Years }
