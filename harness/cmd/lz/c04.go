package main

import (
	"bufio"
	"fmt"
	"math"
	"os"

	"github.com/6tail/lunar-go/calendar"
)

func sol(s *calendar.Solar) []int {
	return []int{s.GetYear(), s.GetMonth(), s.GetDay(), s.GetHour(), s.GetMinute(), s.GetSecond()}
}

func b2i(b bool) int {
	if b {
		return 1
	}
	return 0
}

var c04Boundary = []int{1, 2, 4, 100, 1000, 1500, 1581, 1582, 1583, 1584, 1599, 1600, 1700, 1900, 2000, 2020, 2100, 9996, 9997, 9998}

func hms(sod int) (int, int, int) { return sod / 3600, sod % 3600 / 60, sod % 60 }

// safeSolar builds a Solar and reports a panic instead of propagating it.
func safeSolar(y, m, d, h, mi, s int) (*calendar.Solar, bool) {
	var r *calendar.Solar
	p, _ := try(func() { r = calendar.NewSolar(y, m, d, h, mi, s) })
	return r, p
}

// c04 day frames: one frame per (year, month, day number 1..31).
func c04Days(c *ctx) {
	years := c.yearsFor(c04Boundary, c.argInt("years", 40), 1, 9998)
	full := c.argInt("full", 1) // every full-th day gets the full frame (thorough passes >1)
	sods := []int{0, 1, 43199, 43200, 43201, 86399}
	mss := []int{0, 1, 250, 499, 501, 750, 999}
	n := 0
	days := [][3]int{}
	inYears := map[int]bool{}
	for _, y := range years {
		inYears[y] = true
		if !c.mine(y) {
			continue
		}
		for m := 1; m <= 12; m++ {
			for d := 1; d <= 31; d++ {
				days = append(days, [3]int{y, m, d})
			}
		}
	}
	if c.tier != "thorough" {
		// the places where the day-count formulas change case: the turn of February in every century year and in
		// the leap year before it, and the ends of those years (the thorough tier has every day anyway)
		for cy := 100; cy <= 9900; cy += 100 {
			for _, y := range []int{cy - 4, cy} {
				if inYears[y] || !c.mine(y) {
					continue
				}
				for _, md := range [][2]int{{1, 1}, {2, 27}, {2, 28}, {2, 29}, {2, 30}, {3, 1}, {3, 2}, {12, 31}} {
					days = append(days, [3]int{y, md[0], md[1]})
				}
			}
		}
	}
	for _, x := range days {
		{
			{
				y, m, d := x[0], x[1], x[2]
				n++
				s0, p := safeSolar(y, m, d, 0, 0, 0)
				f := obj{"ev": "C04Day", "y": y, "m": m, "d": d, "p": b2i(p)}
				if p {
					c.emit(f)
					continue
				}
				f["wk"] = s0.GetWeek()
				isFull := full <= 1 || n%full == 0 || (y == 1582 && m >= 9 && m <= 11)
				jd := [][]int{}
				rt := [][]int{}
				useSods := sods
				if !isFull {
					useSods = []int{43200, 86399}
				} else {
					useSods = append(append([]int{}, sods...), c.rng.Intn(86400))
				}
				noon, _ := safeSolar(y, m, d, 12, 0, 0)
				jdnIn := int(math.Round(noon.GetJulianDay()))
				for _, sod := range useSods {
					h, mi, se := hms(sod)
					s, _ := safeSolar(y, m, d, h, mi, se)
					v := s.GetJulianDay()
					j, sr, us := projJD(v)
					jd = append(jd, []int{sod, j, sr, us})
					var r *calendar.Solar
					pp, _ := try(func() { r = calendar.NewSolarFromJulianDay(v) })
					if pp {
						rt = append(rt, []int{sod, 1, 0, 0, 0, 0, 0, 0})
					} else {
						rt = append(rt, append([]int{sod, 0}, sol(r)...))
					}
				}
				f["jd"] = jd
				f["rt"] = rt
				if isFull {
					fj := [][]int{}
					for _, sod := range []int{86399, c.rng.Intn(86399)} {
						for _, ms := range mss {
							v := float64(jdnIn) - 0.5 + float64(sod*1000+ms)/86400000.0
							var r *calendar.Solar
							pp, _ := try(func() { r = calendar.NewSolarFromJulianDay(v) })
							if pp {
								fj = append(fj, []int{jdnIn, sod, ms, 1, 0, 0, 0, 0, 0, 0})
							} else {
								fj = append(fj, append([]int{jdnIn, sod, ms, 0}, sol(r)...))
							}
						}
					}
					f["fj"] = fj
				}
				// partners
				pa := [][]int{}
				np := 1
				if isFull {
					np = 3
				}
				for k := 0; k < np; k++ {
					var o *calendar.Solar
					selfSod := []int{0, 43200, 86399, c.rng.Intn(86400)}[c.rng.Intn(4)]
					h, mi, se := hms(selfSod)
					self, _ := safeSolar(y, m, d, h, mi, se)
					switch k {
					case 0: // near
						o = self.NextDay(c.rng.Intn(81) - 40)
						oh, om, os := hms(c.rng.Intn(86400))
						o, _ = safeSolar(o.GetYear(), o.GetMonth(), o.GetDay(), oh, om, os)
					case 1: // same day, other time
						oh, om, os := hms(c.rng.Intn(86400))
						o, _ = safeSolar(y, m, d, oh, om, os)
					default: // far
						for o == nil {
							oh, om, os := hms(c.rng.Intn(86400))
							o, _ = safeSolar(1+c.rng.Intn(9998), 1+c.rng.Intn(12), 1+c.rng.Intn(28), oh, om, os)
						}
					}
					if o == nil {
						continue
					}
					row := append(sol(o), selfSod)
					var sub, subm int
					var bef, aft bool
					pp, _ := try(func() {
						sub = self.Subtract(o)
						subm = self.SubtractMinute(o)
						bef = self.IsBefore(o)
						aft = self.IsAfter(o)
					})
					smOK := 1
					if sub > 1000000 || sub < -1000000 {
						smOK = 0
						subm = 0
					}
					row = append(row, b2i(pp), sub, subm, smOK, b2i(bef), b2i(aft))
					pa = append(pa, row)
				}
				f["pa"] = pa
				c.emit(f)
			}
		}
	}
}

// c04 chains: seeded random walks of mixed stepping calls; the trace
// specification carries the cursor.
func c04Chains(c *ctx) {
	nChains := c.argInt("chains", 2000)
	steps := c.argInt("steps", 50)
	starts := [][]int{{1582, 10, 4}, {1582, 10, 15}, {1582, 9, 30}, {1582, 12, 31}, {1600, 2, 29}, {2000, 2, 29}, {1900, 2, 28}, {4, 2, 29}, {2020, 1, 31}, {9000, 12, 31}, {5, 1, 1}}
	c.manualRotate = true
	for k := 0; k < nChains; k++ {
		if !c.mine(k) {
			continue
		}
		c.rotateIfDue()
		var cur *calendar.Solar
		if k%3 == 0 {
			st := starts[c.rng.Intn(len(starts))]
			h, mi, se := hms(c.rng.Intn(86400))
			cur, _ = safeSolar(st[0], st[1], st[2], h, mi, se)
		}
		for cur == nil {
			h, mi, se := hms(c.rng.Intn(86400))
			y := 1200 + c.rng.Intn(7000)
			if c.rng.Intn(3) == 0 {
				y = 1500 + c.rng.Intn(700)
			}
			cur, _ = safeSolar(y, 1+c.rng.Intn(12), 1+c.rng.Intn(31), h, mi, se)
		}
		cycle := 0
		if k%40 == 7 {
			// 400 and 800 years after the days around the 1582 gap: the chain opens with whole Gregorian cycles back
			st := [][]int{{1982, 10, 1}, {1982, 10, 5}, {1982, 10, 10}, {1982, 10, 14}, {1982, 10, 15}, {2382, 10, 7}, {2382, 10, 12}}[c.rng.Intn(7)]
			h, mi, se := hms(c.rng.Intn(86400))
			cur, _ = safeSolar(st[0], st[1], st[2], h, mi, se)
			cycle = (st[0] - 1582) / 400
		}
		c.emit(obj{"ev": "C04Start", "at": sol(cur), "k": k})
		var undo []int // pending inverse day steps (additivity / undo patterns)
		for i := 0; i < steps; i++ {
			op := []string{"NextDay", "NextDay", "NextDay", "NextHour", "NextMonth", "NextYear", "JdRoundTrip"}[c.rng.Intn(7)]
			forced := 0
			if cycle > 0 && i == 0 {
				op, forced = "NextDay", -146097*cycle
			}
			sign := 1
			if c.rng.Intn(2) == 0 {
				sign = -1
			}
			if cur.GetYear() < 1300 {
				sign = 1
			} else if cur.GetYear() > 8700 {
				sign = -1
			}
			n := 0
			small := c.rng.Intn(4) != 0
			switch op {
			case "NextDay":
				if len(undo) > 0 && c.rng.Intn(3) == 0 {
					n = undo[len(undo)-1]
					undo = undo[:len(undo)-1]
					sign = 1
				} else if small {
					n = c.rng.Intn(400)
				} else {
					n = c.rng.Intn(400000)
				}
				if c.rng.Intn(4) == 0 {
					undo = append(undo, -sign*n)
				}
			case "NextHour":
				if small {
					n = c.rng.Intn(100)
				} else {
					n = c.rng.Intn(9000000)
				}
			case "NextMonth":
				if small {
					n = c.rng.Intn(30)
				} else {
					n = c.rng.Intn(12000)
				}
			case "NextYear":
				if small {
					n = c.rng.Intn(8)
				} else {
					n = c.rng.Intn(1000)
				}
			}
			n *= sign
			if forced != 0 {
				n = forced
			}
			var r *calendar.Solar
			try(func() { cur.GetJulianDay() }) // a caller that has already asked the start for its Julian Day
			p, _ := try(func() {
				switch op {
				case "NextDay":
					r = cur.NextDay(n)
				case "NextHour":
					r = cur.NextHour(n)
				case "NextMonth":
					r = cur.NextMonth(n)
				case "NextYear":
					r = cur.NextYear(n)
				case "JdRoundTrip":
					r = calendar.NewSolarFromJulianDay(cur.GetJulianDay())
				}
			})
			if p {
				c.emit(obj{"ev": "C04Step", "op": op, "n": n, "p": 1, "res": []int{0, 0, 0, 0, 0, 0}, "k": k})
				break
			}
			// the result's own Julian Day, and the start as it reads after the call
			j, sd, _ := projJD(r.GetJulianDay())
			c.emit(obj{"ev": "C04Step", "op": op, "n": n, "p": 0, "res": sol(r), "k": k, "jd": []int{j, sd}, "st": sol(cur)})
			cur = r
		}
	}
}

// c04 edge replay: every line of the edges file is "y m d sod op n", one
// transition of TLC's state graph of MC_Civil; it is executed on real objects.
func c04Edges(c *ctx) {
	f, err := os.Open(c.arg("edges", "edges.tsv"))
	if err != nil {
		fmt.Fprintln(os.Stderr, err)
		os.Exit(2)
	}
	defer f.Close()
	sc := bufio.NewScanner(f)
	i := 0
	for sc.Scan() {
		i++
		if !c.mine(i) {
			continue
		}
		var y, m, d, sod, n int
		var op string
		if k, _ := fmt.Sscan(sc.Text(), &y, &m, &d, &sod, &op, &n); k != 6 {
			fmt.Fprintln(os.Stderr, "bad edge line:", sc.Text())
			os.Exit(2)
		}
		h, mi, se := hms(sod)
		from, p0 := safeSolar(y, m, d, h, mi, se)
		if p0 {
			c.emit(obj{"ev": "C04Edge", "from": []int{y, m, d, sod}, "op": op, "n": n, "p": 2, "res": []int{0, 0, 0, 0, 0, 0}})
			continue
		}
		var r *calendar.Solar
		p, _ := try(func() {
			switch op {
			case "NextDay":
				r = from.NextDay(n)
			case "NextHour":
				r = from.NextHour(n)
			case "NextMonth":
				r = from.NextMonth(n)
			case "NextYear":
				r = from.NextYear(n)
			case "JdRoundTrip":
				r = calendar.NewSolarFromJulianDay(from.GetJulianDay())
			}
		})
		if p {
			c.emit(obj{"ev": "C04Edge", "from": []int{y, m, d, sod}, "op": op, "n": n, "p": 1, "res": []int{0, 0, 0, 0, 0, 0}})
		} else {
			c.emit(obj{"ev": "C04Edge", "from": []int{y, m, d, sod}, "op": op, "n": n, "p": 0, "res": sol(r)})
		}
	}
}

func init() {
	cmds["c04days"] = c04Days
	cmds["c04chains"] = c04Chains
	cmds["c04edges"] = c04Edges
}
