package main

import (
	"crypto/sha1"
	"fmt"
	"reflect"
	"runtime"
	"strings"
	"sync"
	"sync/atomic"

	"github.com/6tail/lunar-go/HolidayUtil"
	"github.com/6tail/lunar-go/calendar"
)

// c09 first use: "whatever calls were made before or concurrently" includes the case where the very first use of a
// piece of the library in the process is made by many goroutines at once.  A fresh process starts G goroutines;
// before every phase (one accessor of the date object, or one digest of a derived object / package-level lookup)
// they meet at a spinning barrier, so every phase - and with it the first use of whatever that phase needs - is
// entered by all of them together.  Afterwards the same phases are run by one goroutine on fresh objects.

type phase struct {
	name string
	f    func(l *calendar.Lunar) string
}

func firstPhases() []phase {
	ps := []phase{}
	t := reflect.TypeOf(&calendar.Lunar{})
	for i := 0; i < t.NumMethod(); i++ {
		m := t.Method(i)
		if m.Type.NumIn() != 1 || m.Type.NumOut() < 1 || strings.HasPrefix(m.Name, "Set") {
			continue
		}
		idx := i
		ps = append(ps, phase{"Lunar." + m.Name, func(l *calendar.Lunar) string {
			return render(reflect.ValueOf(l).Method(idx).Call(nil)[0], 0)
		}})
	}
	ps = append(ps,
		phase{"EightChar.*", func(l *calendar.Lunar) string { return digest(l.GetEightChar(), nil) }},
		phase{"Solar.*", func(l *calendar.Lunar) string { return digest(l.GetSolar(), nil) }},
		phase{"Foto.*", func(l *calendar.Lunar) string { return digest(l.GetFoto(), nil) }},
		phase{"Tao.*", func(l *calendar.Lunar) string { return digest(l.GetTao(), nil) }},
		phase{"LunarTime.*", func(l *calendar.Lunar) string { return digest(l.GetTime(), nil) }},
		phase{"NineStar.*", func(l *calendar.Lunar) string { return digest(l.GetDayNineStar(), nil) + digest(l.GetYearNineStar(), nil) }},
		phase{"Yun", func(l *calendar.Lunar) string {
			y := l.GetEightChar().GetYun(1)
			dy := y.GetDaYun()
			s := callRender(y.GetStartSolar())
			for _, d := range dy[:3] {
				s += d.GetGanZhi() + d.GetXun() + d.GetXunKong()
				for _, n := range d.GetLiuNian()[:2] {
					s += n.GetGanZhi() + n.GetXun()
					for _, m := range n.GetLiuYue()[:2] {
						s += m.GetGanZhi() + m.GetMonthInChinese()
					}
				}
				for _, x := range d.GetXiaoYun()[:2] {
					s += x.GetGanZhi() + x.GetXunKong()
				}
			}
			return s
		}},
		phase{"ListSolarFromBaZi", func(l *calendar.Lunar) string {
			e := l.GetEightChar()
			return callRender(calendar.ListSolarFromBaZi(e.GetYear(), e.GetMonth(), e.GetDay(), e.GetTime()))
		}},
		phase{"Holiday", func(l *calendar.Lunar) string {
			s := l.GetSolar()
			return callRender(HolidayUtil.GetHolidayByYmd(2020, 10, 1+s.GetHour()%8)) + callRender(HolidayUtil.GetHolidaysByTarget("2020-10-01")) +
				s.Next(7, true).ToYmd() + fmt.Sprint(s.GetSalaryRate())
		}},
		phase{"LunarYear.*", func(l *calendar.Lunar) string {
			y := calendar.NewLunarYear(l.GetYear())
			return digest(y, nil)
		}},
		phase{"LunarMonth.*", func(l *calendar.Lunar) string {
			m := calendar.NewLunarMonthFromYm(l.GetYear(), l.GetMonth())
			return digest(m, nil)
		}},
		phase{"SolarWeek/Month/Year", func(l *calendar.Lunar) string {
			s := l.GetSolar()
			return digest(calendar.NewSolarWeekFromYmd(s.GetYear(), s.GetMonth(), s.GetDay(), 1), nil) +
				digest(calendar.NewSolarMonthFromYm(s.GetYear(), s.GetMonth()), nil) + digest(calendar.NewSolarYearFromYear(s.GetYear()), nil)
		}},
	)
	return ps
}

type spinBarrier struct {
	n     int32
	count int32
	sense int32
}

func (b *spinBarrier) wait(local *int32) {
	*local = 1 - *local
	if atomic.AddInt32(&b.count, 1) == b.n {
		atomic.StoreInt32(&b.count, 0)
		atomic.StoreInt32(&b.sense, *local)
		return
	}
	for atomic.LoadInt32(&b.sense) != *local {
		runtime.Gosched()
	}
}

func c09First(c *ctx) {
	singleThreaded = false
	G := c.argInt("g", 16)
	ps := firstPhases()
	// the order of the phases is rotated per process so that every phase is, in some process, among the first
	rot := (c.shard * 37) % len(ps)
	shared := c.shard%2 == 0
	days := [][3]int{{2000, 12, 31}, {2024, 2, 10}, {1990, 10, 15}, {2033, 12, 22}, {2020, 5, 23}, {1985, 2, 20}, {2011, 11, 11}, {2050, 7, 1}}
	day := days[(c.shard/2)%len(days)]
	mk := func(g int) *calendar.Lunar {
		h := (g * 5) % 24
		if shared {
			h = 9
		}
		s, _ := safeSolar(day[0], day[1], day[2], h, 30, 0)
		return s.GetLunar()
	}
	run := func(l *calendar.Lunar, k int) (out string) {
		p := ps[(k+rot)%len(ps)]
		defer func() {
			if e := recover(); e != nil {
				out = "PANIC " + fmt.Sprint(e)
			}
		}()
		return p.f(l)
	}
	cold := make([][]string, G)
	bar := &spinBarrier{n: int32(G)}
	var wg sync.WaitGroup
	var sharedObj *calendar.Lunar
	for g := 0; g < G; g++ {
		wg.Add(1)
		go func(g int) {
			defer wg.Done()
			var local int32
			res := make([]string, len(ps))
			bar.wait(&local)
			// construction is part of it: all goroutines build their first object together
			var l *calendar.Lunar
			if shared {
				if g == 0 {
					sharedObj = mk(0)
				}
				bar.wait(&local)
				l = sharedObj
			} else {
				l = mk(g)
			}
			for k := range ps {
				bar.wait(&local)
				res[k] = run(l, k)
			}
			cold[g] = res
		}(g)
	}
	wg.Wait()
	rows := [][]interface{}{}
	sum := func(res []string) string {
		h := sha1.New()
		for _, r := range res {
			fmt.Fprint(h, r, "\x00")
		}
		return fmt.Sprintf("%x", h.Sum(nil))[:16]
	}
	for g := 0; g < G; g++ {
		l := mk(g)
		warm := make([]string, len(ps))
		for k := range ps {
			warm[k] = run(l, k)
		}
		where := ""
		for k := range ps {
			if warm[k] != cold[g][k] {
				where = ps[(k+rot)%len(ps)].name
				break
			}
		}
		rows = append(rows, []interface{}{g, sum(cold[g]), sum(warm), where})
	}
	c.emit(obj{"ev": "C09First", "shard": c.shard, "shared": b2i(shared), "day": day[0]*10000 + day[1]*100 + day[2], "phases": len(ps), "first": ps[rot].name,
		"rows": rows, "lockfree": b2i(calendar.VerifLockFree())})
}

func init() { cmds["c09first"] = c09First }
