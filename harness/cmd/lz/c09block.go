package main

import (
	"fmt"
	"time"

	"github.com/6tail/lunar-go/HolidayUtil"
	"github.com/6tail/lunar-go/calendar"
)

// c09 "never leave the library blocked": a round of probe calls (one per package-level structure the library
// guards or might guard), then calls that panic on invalid input and are recovered, then the same probes again,
// each on its own goroutine with a deadline.  A probe that does not return is reported as blocked; one that
// returns must return what it returned before the panics.

func c09Probes() []func() string {
	return []func() string{
		func() string { return callRender(HolidayUtil.GetHoliday("2020-10-01")) },
		func() string { return callRender(HolidayUtil.GetHolidaysByYm(2020, 10)) + callRender(HolidayUtil.GetHolidaysByTarget("2020-10-01")) },
		func() string { s, _ := safeSolar(2020, 9, 28, 9, 0, 0); return s.Next(5, true).ToYmd() + fmt.Sprint(s.GetSalaryRate()) },
		func() string { HolidayUtil.Fix(nil, ""); return "fix-noop" },
		func() string { return yearDigest(calendar.NewLunarYear(2021)) },
		func() string { s, _ := safeSolar(2033, 12, 25, 23, 30, 0); return lunarDigest(s.GetLunar()) },
		func() string { return fmt.Sprint(mo(calendar.NewLunarMonthFromYm(2020, -4).Next(9))) },
		func() string { return callRender(calendar.ListSolarFromBaZi("甲辰", "丙寅", "甲辰", "甲子")) },
		func() string {
			l := calendar.NewLunar(2021, 4, 8, 12, 0, 0)
			return callRender(l.GetFoto().GetFestivals()) + callRender(l.GetTao().GetFestivals()) + callRender(l.GetDayJiShen()) + callRender(l.GetTimeYi())
		},
		func() string { return digest(calendar.NewSolarWeekFromYmd(2024, 2, 24, 1), nil) },
	}
}

func c09RecoveredPanics() []string {
	out := []string{}
	bad := []func(){
		// a list of names too short for the record the fix-up touches (restored right after)
		func() { HolidayUtil.Fix([]string{"元旦", "春节"}, "202010011120201001") },
		func() { HolidayUtil.GetHolidaysByTarget("2020-10") },
		func() { calendar.NewLunar(2021, 13, 1, 0, 0, 0) },
		func() { calendar.NewLunar(2021, 1, 31, 0, 0, 0) },
		func() { calendar.NewLunarMonthFromYm(2021, -5).Next(1) },
		func() { calendar.NewSolar(1582, 10, 9, 0, 0, 0) },
		func() { calendar.NewSolar(2021, 2, 29, 25, 0, 0) },
		func() { calendar.NewLunarTime(2021, 1, 1, 24, 0, 0) },
		func() { calendar.NewTao(4718, -3, 1, 0, 0, 0) },
		func() { calendar.NewFoto(2565, 2, 31, 0, 0, 0) },
		func() { calendar.NewSolarFromYmd(2020, 5, 1).GetLunar().GetEightChar().GetYunBySect(1, 2).GetDaYunBy(-1) },
	}
	for i, f := range bad {
		p, msg := false, ""
		done := make(chan bool, 1)
		go func() {
			p, msg = try(f)
			done <- true
		}()
		select {
		case <-done:
			out = append(out, fmt.Sprintf("%d:%v:%.40s", i, p, msg))
		case <-time.After(30 * time.Second):
			out = append(out, fmt.Sprintf("%d:BLOCKED", i))
		}
		if i == 0 {
			// the name list the first call installed before it panicked is put back (a names-only fix-up); with a
			// deadline too: if it never returns the probes below will say so
			back := make(chan bool, 1)
			go func() {
				try(func() { HolidayUtil.Fix(HolidayUtil.NAMES, "") })
				back <- true
			}()
			select {
			case <-back:
			case <-time.After(30 * time.Second):
				out = append(out, "restore:BLOCKED")
			}
		}
	}
	return out
}

func c09Block(c *ctx) {
	singleThreaded = false
	if c.shard != 0 {
		return
	}
	HolidayUtil.VerifReset()
	probes := c09Probes()
	run := func(f func() string) (string, int) {
		res := make(chan string, 1)
		go func() {
			d := ""
			if p, msg := try(func() { d = f() }); p {
				d = "PANIC " + msg
			}
			res <- sha12(d)
		}()
		select {
		case d := <-res:
			return d, 0
		case <-time.After(30 * time.Second):
			return "BLOCKED", 1
		}
	}
	before := make([]string, len(probes))
	for i, f := range probes {
		before[i], _ = run(f)
	}
	pan := c09RecoveredPanics()
	rows := [][]interface{}{}
	for i, f := range probes {
		d, b := run(f)
		rows = append(rows, []interface{}{i, before[i], d, b})
	}
	c.emit(obj{"ev": "C09Block", "panics": pan, "rows": rows, "lockfree": b2i(calendar.VerifLockFree())})
	HolidayUtil.VerifReset()
}

func init() { cmds["c09block"] = c09Block }
