/* icudump: ICU's Chinese calendar (Asia/Shanghai) for every civil day of a year range, as an
 * independent oracle for the month table (property C02).  Output: "gy gm gd ly lm leap ld" per line,
 * ly = Gregorian year in which the lunar year begins (ICU extended year - 2637). */
#include <stdio.h>
#include <stdlib.h>
#include <unicode/ucal.h>
#include <unicode/ustring.h>

int main(int argc, char **argv) {
    int y0 = argc > 1 ? atoi(argv[1]) : 1900, y1 = argc > 2 ? atoi(argv[2]) : 2100;
    UErrorCode st = U_ZERO_ERROR;
    UChar tz[32];
    u_uastrcpy(tz, "Asia/Shanghai");
    UCalendar *g = ucal_open(tz, -1, "en_US@calendar=gregorian", UCAL_TRADITIONAL, &st);
    UCalendar *c = ucal_open(tz, -1, "zh_CN@calendar=chinese", UCAL_TRADITIONAL, &st);
    if (U_FAILURE(st)) { fprintf(stderr, "ucal_open: %s\n", u_errorName(st)); return 2; }
    for (int y = y0; y <= y1; y++) {
        for (int m = 0; m < 12; m++) {
            for (int d = 1; d <= 31; d++) {
                ucal_clear(g);
                ucal_setDateTime(g, y, m, d, 12, 0, 0, &st);
                if (ucal_get(g, UCAL_MONTH, &st) != m) continue; /* day does not exist */
                UDate t = ucal_getMillis(g, &st);
                ucal_setMillis(c, t, &st);
                int ey = ucal_get(c, UCAL_EXTENDED_YEAR, &st);
                int lm = ucal_get(c, UCAL_MONTH, &st) + 1;
                int leap = ucal_get(c, UCAL_IS_LEAP_MONTH, &st);
                int ld = ucal_get(c, UCAL_DATE, &st);
                if (U_FAILURE(st)) { fprintf(stderr, "icu: %s\n", u_errorName(st)); return 2; }
                printf("%d %d %d %d %d %d %d\n", y, m + 1, d, ey - 2637, lm, leap, ld);
            }
        }
    }
    ucal_close(g);
    ucal_close(c);
    return 0;
}
