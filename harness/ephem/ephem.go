// Package ephem is an independent low-precision ephemeris (Meeus, Astronomical
// Algorithms, ch. 25 low-accuracy Sun; ch. 49 new moon) with the Espenak-Meeus
// Delta-T polynomials. It shares nothing with lunar-go's ShouXingUtil and is
// used as an oracle whose tolerance the TLA+ specification owns.
package ephem

import "math"

const deg = math.Pi / 180

func norm360(x float64) float64 {
	x = math.Mod(x, 360)
	if x < 0 {
		x += 360
	}
	return x
}

// DeltaT returns TD-UT in seconds for a decimal year (Espenak & Meeus 2006).
func DeltaT(y float64) float64 {
	switch {
	case y < -500:
		u := (y - 1820) / 100
		return -20 + 32*u*u
	case y < 500:
		u := y / 100
		return 10583.6 - 1014.41*u + 33.78311*u*u - 5.952053*u*u*u - 0.1798452*math.Pow(u, 4) + 0.022174192*math.Pow(u, 5) + 0.0090316521*math.Pow(u, 6)
	case y < 1600:
		u := (y - 1000) / 100
		return 1574.2 - 556.01*u + 71.23472*u*u + 0.319781*u*u*u - 0.8503463*math.Pow(u, 4) - 0.005050998*math.Pow(u, 5) + 0.0083572073*math.Pow(u, 6)
	case y < 1700:
		t := y - 1600
		return 120 - 0.9808*t - 0.01532*t*t + t*t*t/7129
	case y < 1800:
		t := y - 1700
		return 8.83 + 0.1603*t - 0.0059285*t*t + 0.00013336*t*t*t - math.Pow(t, 4)/1174000
	case y < 1860:
		t := y - 1800
		return 13.72 - 0.332447*t + 0.0068612*t*t + 0.0041116*t*t*t - 0.00037436*math.Pow(t, 4) + 0.0000121272*math.Pow(t, 5) - 0.0000001699*math.Pow(t, 6) + 0.000000000875*math.Pow(t, 7)
	case y < 1900:
		t := y - 1860
		return 7.62 + 0.5737*t - 0.251754*t*t + 0.01680668*t*t*t - 0.0004473624*math.Pow(t, 4) + math.Pow(t, 5)/233174
	case y < 1920:
		t := y - 1900
		return -2.79 + 1.494119*t - 0.0598939*t*t + 0.0061966*t*t*t - 0.000197*math.Pow(t, 4)
	case y < 1941:
		t := y - 1920
		return 21.20 + 0.84493*t - 0.076100*t*t + 0.0020936*t*t*t
	case y < 1961:
		t := y - 1950
		return 29.07 + 0.407*t - t*t/233 + t*t*t/2547
	case y < 1986:
		t := y - 1975
		return 45.45 + 1.067*t - t*t/260 - t*t*t/718
	case y < 2005:
		t := y - 2000
		return 63.86 + 0.3345*t - 0.060374*t*t + 0.0017275*t*t*t + 0.000651814*math.Pow(t, 4) + 0.00002373599*math.Pow(t, 5)
	case y < 2050:
		t := y - 2000
		return 62.92 + 0.32217*t + 0.005589*t*t
	case y < 2150:
		u := (y - 1820) / 100
		return -20 + 32*u*u - 0.5628*(2150-y)
	default:
		u := (y - 1820) / 100
		return -20 + 32*u*u
	}
}

// SunApparentLongitude returns the apparent geocentric ecliptic longitude of
// the Sun in degrees [0,360) at Julian Ephemeris Day jde (Meeus ch. 25,
// low accuracy, about 0.01 degree near the present).
func SunApparentLongitude(jde float64) float64 {
	T := (jde - 2451545.0) / 36525
	L0 := 280.46646 + 36000.76983*T + 0.0003032*T*T
	M := 357.52911 + 35999.05029*T - 0.0001537*T*T
	Mr := M * deg
	C := (1.914602-0.004817*T-0.000014*T*T)*math.Sin(Mr) + (0.019993-0.000101*T)*math.Sin(2*Mr) + 0.000289*math.Sin(3*Mr)
	trueLon := L0 + C
	omega := (125.04 - 1934.136*T) * deg
	return norm360(trueLon - 0.00569 - 0.00478*math.Sin(omega))
}

// NewMoonJDE returns the Julian Ephemeris Day of the true new moon number k
// (k = 0 is the new moon of 2000-01-06; k integer) (Meeus ch. 49).
func NewMoonJDE(k float64) float64 {
	T := k / 1236.85
	T2, T3, T4 := T*T, T*T*T, T*T*T*T
	jde := 2451550.09766 + 29.530588861*k + 0.00015437*T2 - 0.000000150*T3 + 0.00000000073*T4
	E := 1 - 0.002516*T - 0.0000074*T2
	M := (2.5534 + 29.10535670*k - 0.0000014*T2 - 0.00000011*T3) * deg
	Mp := (201.5643 + 385.81693528*k + 0.0107582*T2 + 0.00001238*T3 - 0.000000058*T4) * deg
	F := (160.7108 + 390.67050284*k - 0.0016118*T2 - 0.00000227*T3 + 0.000000011*T4) * deg
	Om := (124.7746 - 1.56375588*k + 0.0020672*T2 + 0.00000215*T3) * deg
	c := -0.40720*math.Sin(Mp) +
		0.17241*E*math.Sin(M) +
		0.01608*math.Sin(2*Mp) +
		0.01039*math.Sin(2*F) +
		0.00739*E*math.Sin(Mp-M) -
		0.00514*E*math.Sin(Mp+M) +
		0.00208*E*E*math.Sin(2*M) -
		0.00111*math.Sin(Mp-2*F) -
		0.00057*math.Sin(Mp+2*F) +
		0.00056*E*math.Sin(2*Mp+M) -
		0.00042*math.Sin(3*Mp) +
		0.00042*E*math.Sin(M+2*F) +
		0.00038*E*math.Sin(M-2*F) -
		0.00024*E*math.Sin(2*Mp-M) -
		0.00017*math.Sin(Om) -
		0.00007*math.Sin(Mp+2*M) +
		0.00004*math.Sin(2*Mp-2*F) +
		0.00004*math.Sin(3*M) +
		0.00003*math.Sin(Mp+M-2*F) +
		0.00003*math.Sin(2*Mp+2*F) -
		0.00003*math.Sin(Mp+M+2*F) +
		0.00003*math.Sin(Mp-M+2*F) -
		0.00002*math.Sin(Mp-M-2*F) -
		0.00002*math.Sin(3*Mp+M) +
		0.00002*math.Sin(4*Mp)
	// planetary arguments
	A := []float64{
		299.77 + 0.107408*k - 0.009173*T2,
		251.88 + 0.016321*k,
		251.83 + 26.651886*k,
		349.42 + 36.412478*k,
		84.66 + 18.206239*k,
		141.74 + 53.303771*k,
		207.14 + 2.453732*k,
		154.84 + 7.306860*k,
		34.52 + 27.261239*k,
		207.19 + 0.121824*k,
		291.34 + 1.844379*k,
		161.72 + 24.198154*k,
		239.56 + 25.513099*k,
		331.55 + 3.592518*k,
	}
	w := []float64{0.000325, 0.000165, 0.000164, 0.000126, 0.000110, 0.000062, 0.000060, 0.000056, 0.000047, 0.000042, 0.000040, 0.000037, 0.000035, 0.000023}
	for i := range A {
		c += w[i] * math.Sin(A[i]*deg)
	}
	return jde + c
}

// NearestNewMoonK returns the lunation number whose mean new moon is nearest to jd.
func NearestNewMoonK(jd float64) float64 {
	return math.Round((jd - 2451550.09766) / 29.530588861)
}
