------------------------------ MODULE MC_Weeks ------------------------------
(***************************************************************************)
(* Weeks as a cursor: (anchor day, first weekday).  Actions: move n whole  *)
(* weeks; move n positions along the month-separated sequence              *)
(* (month, week 1..k), (next month, week 1..k'), ...                       *)
(* Invariants state the partition and index laws by *counting*, so the     *)
(* closed formulas of Civil.tla are checked against their definitions.     *)
(***************************************************************************)
EXTENDS Civil, TLC
CONSTANTS MaxDepth
VARIABLES jdn, start, depth, prev, act
vars == << jdn, start, depth, prev, act >>
view == << jdn, start, depth >>

SeedMonths == { << 1582, 9 >>, << 1582, 10 >>, << 1582, 11 >>, << 2020, 2 >>, << 2021, 2 >>, << 2020, 11 >>,
                << 2020, 12 >>, << 2021, 1 >>, << 2023, 4 >>, << 2023, 10 >>, << 1900, 2 >>, << 1, 1 >> }
SeedDays == UNION { { JDN(ym[1], ym[2], 1) + i : i \in 0..(DaysInMonth(ym[1], ym[2]) - 1) } : ym \in SeedMonths }
Ns == -6..6
Init == jdn \in SeedDays /\ start \in 0..6 /\ depth = 0 /\ prev = << jdn, start >> /\ act = << "Init", 0 >>

Pos(j, s) == LET t == YmdOf(j) IN << MonthIndex(t[1], t[2]), WeekIndexInMonth(t[1], t[2], t[3], s) >>
\* the representative day of a position: the first day of that week that lies in the month
PosDay(p, s) == LET ym == YmOfIndex(p[1])
                    f == WeekOfMonthFirst(ym[1], ym[2], p[2], s)
                    m1 == JDN(ym[1], ym[2], 1)
                IN IF f < m1 THEN m1 ELSE f

WeekNext(n) == /\ depth < MaxDepth /\ depth' = depth + 1 /\ start' = start
               /\ jdn' = jdn + 7 * n /\ prev' = << jdn, start >> /\ act' = << "WeekNext", n >>
WeekNextSep(n) == /\ depth < MaxDepth /\ depth' = depth + 1 /\ start' = start
                  /\ LET p == Pos(jdn, start) IN jdn' = PosDay(WalkWeeks(p[1], p[2], n, start), start)
                  /\ prev' = << jdn, start >> /\ act' = << "WeekNextSep", n >>
Next == \E n \in Ns : WeekNext(n) \/ WeekNextSep(n)
Spec == Init /\ [][Next]_vars

T == YmdOf(jdn)
\* --- partition -----------------------------------------------------------
WeekContains == WeekFirst(jdn, start) <= jdn /\ jdn < WeekFirst(jdn, start) + 7
WeekStartsOnStart == Weekday(WeekFirst(jdn, start)) = start
\* --- indices equal the number of week starts passed (by counting) ---------
StartsIn(a, b) == Cardinality({ k \in (a + 1)..b : Weekday(k) = start })
IndexByCounting == /\ WeekIndexInMonth(T[1], T[2], T[3], start) = 1 + StartsIn(JDN(T[1], T[2], 1), jdn)
                   /\ WeekIndexInYear(T[1], T[2], T[3], start) = 1 + StartsIn(JDN(T[1], 1, 1), jdn)
\* --- the weeks of a month are exactly the distinct weeks meeting it --------
MonthDays == { JDN(T[1], T[2], 1) + i : i \in 0..(DaysInMonth(T[1], T[2]) - 1) }
WeeksByCounting == /\ WeeksOfMonth(T[1], T[2], start) = Cardinality({ WeekFirst(k, start) : k \in MonthDays })
                   /\ { WeekOfMonthFirst(T[1], T[2], k, start) : k \in 1..WeeksOfMonth(T[1], T[2], start) }
                        = { WeekFirst(k, start) : k \in MonthDays }
MonthListOK == /\ \A k \in MonthDays : YmdOf(k)[2] = T[2] /\ YmdOf(k)[1] = T[1]
               /\ YmdOf(JDN(T[1], T[2], 1) - 1)[2] # T[2] /\ YmdOf(JDN(T[1], T[2], 1) + DaysInMonth(T[1], T[2]))[2] # T[2]
\* --- navigation laws -------------------------------------------------------
NavLaws ==
  [][ /\ act'[1] = "WeekNext" => /\ WeekFirst(jdn', start) = WeekFirst(jdn, start) + 7 * act'[2]
                                 /\ jdn' - 7 * act'[2] = jdn
      /\ act'[1] = "WeekNextSep" =>
           LET p == Pos(jdn, start)
               q == WalkWeeks(p[1], p[2], act'[2], start)
           IN /\ Pos(jdn', start) = q                                    \* lands on the position walked to
              /\ WalkWeeks(q[1], q[2], -act'[2], start) = p             \* and n back returns
              /\ \A a \in {-2, 1, 3} : WalkWeeks(q[1], q[2], a, start) = WalkWeeks(p[1], p[2], act'[2] + a, start)
              /\ q[2] \in 1..WeeksOfMonth(YmOfIndex(q[1])[1], YmOfIndex(q[1])[2], start)
    ]_vars
EmitPos == PrintT(<< "EDGE", T[1], T[2], T[3], start >>)
=============================================================================
