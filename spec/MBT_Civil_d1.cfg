SPECIFICATION Spec
CONSTANTS
  MaxDepth = 1
  SeedSods <- SeedSodsV
  DayNs <- DayNsV
  HourNs <- HourNsV
  MonthNs <- MonthNsV
  YearNs <- YearNsV
  FebYears <- FebYearsV
  EndYears <- EndYearsV
  GapSeeds = TRUE
INVARIANTS EmitEdge
CHECK_DEADLOCK FALSE
