SPECIFICATION Spec
INVARIANTS FiveTigers MonthAdvances YearAdvances DayAdvances HourLaw Parity
CHECK_DEADLOCK FALSE
