----------------------------- MODULE Trace_Lunar -----------------------------
(***************************************************************************)
(* Trace specification of the lunar family: C06 (year structure, month     *)
(* navigation), C01 (civil <-> lunar bijection), C03 (solar terms), ...    *)
(***************************************************************************)
EXTENDS Civil, LunarTable, Vocab, TraceKit

tvars == << l, rej >>
SeqSet(s) == { s[i] : i \in 1..Len(s) }
T4(t) == [i \in 1..Len(t) |-> Row4(t[i])]

(***************************************************************************)
(* C06Year                                                                 *)
(***************************************************************************)
C06Checks(e) ==
  LET y == e.y
      T == T4(e.t)
      TN == T4(e.tn)
      TP == T4(e.tp)
      Y == InYear(T, y)
      scoped == ~Exempt(y)
      pairNext == ~Exempt(y) /\ ~Exempt(y + 1)
      pairPrev == ~Exempt(y) /\ ~Exempt(y - 1) /\ Len(TP) > 0
  IN IF e.p # 0 THEN Chk("C06.year.panic", y, FALSE)
     ELSE
       Chk("C06.table.shape", y, Len(T) = 15 /\ \A i \in 1..Len(e.t) : e.t[i][6] = 0)
       + (IF ~scoped THEN 0 ELSE
            Chk("C06.months.contiguous", y, Contiguous(T))
            + Chk("C06.months.length29or30", y, Lengths2930(T))
            + Chk("C06.year.numbering", << y, [i \in 1..Len(Y) |-> MM(Y[i])] >>, Len(Y) >= 1 /\ Numbering(Y))
            + Chk("C06.year.length", << y, YearLength(Y) >>, LengthOK(Y))
            + Chk("C06.year.leapMonth", << y, e.leap >>, e.leap = LeapOf(Y))
            + Chk("C06.year.dayCount", << y, e.days >>, e.days = YearLength(Y))
            + Chk("C06.year.monthsInYear", y, T4(e.inyear) = Y)
            + SumSeq(e.get, LAMBDA x :
                LET has == HasMonth(Y, y, x[1])
                IN Chk("C06.year.getMonth", << y, x[1] >>,
                       /\ ((x[2] = 0) <=> has) /\ ((x[3] = 0) <=> has)
                       /\ has => (Len(x) = 15 /\ << x[4], x[5], x[6], x[7] >> = MonthRow(Y, y, x[1])
                                  /\ << x[10], x[11], x[12], x[13] >> = MonthRow(Y, y, x[1])))))
       + (IF pairNext THEN Chk("C06.neighbours.agree", << y, y + 1 >>, Agree(T, TN) /\ Contiguous(TN) /\ Len(TN) = 15) ELSE 0)
       + (IF pairPrev THEN Chk("C06.neighbours.agree", << y - 1, y >>, Agree(TP, T)) ELSE 0)
       \* New Year's Eve
       + (IF ~pairNext THEN 0
          ELSE IF e.eve.p # 0 THEN Chk("C06.eve.panic", y, FALSE)
          ELSE LET lastRow == Y[Len(Y)]
               IN Chk("C06.eve.next-is-new-year", << y, e.eve.last, e.eve.next >>,
                      /\ e.eve.last = << y, MM(lastRow), MCnt(lastRow) >>
                      /\ e.eve.next = << y + 1, 1, 1 >>))
       \* month navigation
       + SumSeq(e.nav, LAMBDA nv :
           LET f == nv.from
           IN SumSeq(nv.r, LAMBDA x :
                LET n == x[1]
                    key == << f[1], f[2], n >>
                    res == << x[5], x[6], x[7], x[8] >>
                    back == << x[9], x[10], x[11], x[12] >>
                IN IF x[2] # 0 \/ x[3] # 0 \/ x[4] # 0 THEN (IF scoped /\ pairNext /\ pairPrev THEN Chk("C06.next.panic-or-nil", key, FALSE) ELSE 0)
                   ELSE
                     (IF n = 0 /\ scoped THEN Chk("C06.next.zero", key, res = f) ELSE 0)
                     + (IF n = 1 /\ pairNext THEN Chk("C06.next.successor", << key, res >>, res = SuccIn(T, TN, f[1], f[2])) ELSE 0)
                     + (IF n = -1 /\ pairPrev THEN Chk("C06.next.predecessor", << key, res >>, res = PredIn(T, TP, f[1], f[2])) ELSE 0)
                     \* n forward then n back returns to the start (no exempt year within reach: |n| <= 40 < 4 years)
                     + (IF ~(\E z \in (y - 4)..(y + 4) : Exempt(z)) THEN Chk("C06.next.back", << key, back >>, back = f) ELSE 0)
                     \* moving n months = moving one month n times
                     + (IF Len(x) = 17 /\ ~(\E z \in (y - 4)..(y + 4) : Exempt(z))
                          THEN Chk("C06.next.n-equals-n-times-one", << key, res >>, x[13] = 0 /\ << x[14], x[15], x[16], x[17] >> = res)
                          ELSE 0)
                     \* the walk is monotone: first day strictly moves in the direction of n
                     + (IF scoped /\ n # 0 /\ ~(\E z \in (y - 4)..(y + 4) : Exempt(z))
                          THEN Chk("C06.next.direction", << key, res >>, (n > 0) <=> (res[4] > f[4])) ELSE 0)))

C06Year == IsEv("C06Year") /\ Consume(C06Checks(Trace[l]))

(***************************************************************************)
(* Edges of MC_Lunar's state graph executed on the real objects; e.exp is  *)
(* the model's successor state << year, month, day, dayCount, firstJdn >>. *)
(***************************************************************************)
LunarEdge ==
  /\ IsEv("LunarEdge")
  /\ LET e == Trace[l]
         key == << e.from, e.op, e.n >>
     IN Consume(IF e.p # 0 THEN Chk(IF e.op = "MonthNext" THEN "C06.edge.MonthNext.panic" ELSE "C01.edge.DayNext.panic", key, FALSE)
                ELSE IF e.op = "MonthNext"
                  THEN Chk("C06.edge.MonthNext", << key, e.res >>, e.res = << e.exp[1], e.exp[2], e.exp[4], e.exp[5] >>)
                  ELSE Chk("C01.edge.DayNext", << key, e.res >>,
                           /\ << e.res[1], e.res[2], e.res[3] >> = << e.exp[1], e.exp[2], e.exp[3] >>
                           /\ e.res[4] = e.exp[5] + e.exp[3] - 1
                           /\ << e.res[5], e.res[6], e.res[7] >> = << e.exp[1], e.exp[2], e.exp[3] >>))

(***************************************************************************)
(* C01Year: every day of a civil year through both conversion routes.      *)
(***************************************************************************)
HMS(sod) == << HourOf(sod), MinuteOf(sod), SecondOf(sod) >>
PosInTable(T, y, m) == CHOOSE i \in 1..Len(T) : MY(T[i]) = y /\ MM(T[i]) = m
C01Checks(e) ==
  LET y == e.y
      T == T4(e.t)
      R == e.rows
      n == Len(R)
      okRow(i) == R[i].pa = 0 /\ HasMonth(T, R[i].a[1], R[i].a[2])
      Ord(i) == << PosInTable(T, R[i].a[1], R[i].a[2]), R[i].a[3] >>
  IN IF e.p # 0 THEN Chk("C01.table.panic", y, FALSE)
     ELSE
       \* the 15 months of table Y cover every day of civil year Y
       Chk("C01.table.covers-year", y, Len(T) = 15 /\ Covered(T, JDN(y, 1, 1)) /\ Covered(T, JDN(y, 12, 31)))
       + SumSeq(R, LAMBDA x :
           LET c == x.c
               J == JDN(c[1], c[2], c[3])
               k == << c[1], c[2], c[3], c[4] >>
               t3 == HMS(c[4])
           IN IF x.pa # 0 THEN Chk("C01.toLunar.panic", k, FALSE)
              ELSE
                \* civil -> lunar: the unique month of the year's table containing the day
                Chk("C01.toLunar", << k, x.a >>, /\ UniqueMonth(T, J)
                                                 /\ << x.a[1], x.a[2], x.a[3] >> = ToLunar(T, J)
                                                 /\ << x.a[4], x.a[5], x.a[6] >> = t3)
                + Chk("C01.toLunar.keeps-civil", << k, x.as >>, x.as = << c[1], c[2], c[3] >> \o t3)
                \* lunar -> civil -> lunar through the constructor
                + (IF x.pb # 0 THEN Chk("C01.fromLunar.panic", << k, x.a >>, FALSE)
                   ELSE Chk("C01.fromLunar.civil-day", << k, x.a, x.bs >>, x.bs = << c[1], c[2], c[3] >> \o t3)
                        + Chk("C01.fromLunar.fields", << k, x.a, x.b >>, x.b = x.a)
                        + Chk("C01.fromLunar.back", << k, x.a, x.bl >>, x.bl = x.a)
                        \* path independence: all zero-argument getters agree
                        + (IF Has(x, "da") THEN Chk("C01.path-independence", << k, x.a, IF Has(x, "diff") THEN x.diff ELSE "" >>, x.da = x.db) ELSE 0))
                \* stepping n days on the lunar side = stepping n days on the civil side
                + SumSeq(x.nx, LAMBDA nx :
                     IF nx[2] # 0 THEN Chk("C01.next.panic", << k, nx[1] >>, FALSE)
                     ELSE Chk("C01.next.civil-day", << k, nx[1] >>, nx[9] = J + nx[1] /\ nx[10] = c[4])
                          + Chk("C01.next.same-as-civil-route", << k, nx[1] >>,
                                << nx[3], nx[4], nx[5], nx[6], nx[7], nx[8] >> = << nx[11], nx[12], nx[13], nx[14], nx[15], nx[16] >>)))
       \* order preservation along the year: lunar (year, month position, day) strictly increases with the civil day
       + SumN(n - 1, LAMBDA i :
           IF okRow(i) /\ okRow(i + 1)
             THEN Chk("C01.order", << R[i].c, R[i].a, R[i + 1].a >>,
                      LET a == Ord(i) b == Ord(i + 1) IN a[1] < b[1] \/ (a[1] = b[1] /\ a[2] < b[2]))
             ELSE 0)
       \* one-to-one: no two civil days of the year share a lunar date
       + Chk("C01.injective", y, Cardinality({ << R[i].a[1], R[i].a[2], R[i].a[3] >> : i \in { j \in 1..n : R[j].pa = 0 } })
                                 = Cardinality({ j \in 1..n : R[j].pa = 0 }))

C01Year == IsEv("C01Year") /\ Consume(C01Checks(Trace[l]))

TraceInit == KitInit
TraceNext == C06Year \/ LunarEdge \/ C01Year
TraceSpec == TraceInit /\ [][TraceNext]_tvars
=============================================================================
