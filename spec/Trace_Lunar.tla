----------------------------- MODULE Trace_Lunar -----------------------------
(***************************************************************************)
(* Trace specification of the lunar family: C06 (year structure, month     *)
(* navigation), C01 (civil <-> lunar bijection), C03 (solar terms), ...    *)
(***************************************************************************)
EXTENDS Civil, LunarTable, Vocab, TraceKit

tvars == << l, rej >>
SeqSet(s) == { s[i] : i \in 1..Len(s) }
T4(t) == [i \in 1..Len(t) |-> Row4(t[i])]

(***************************************************************************)
(* C06Year                                                                 *)
(***************************************************************************)
C06Checks(e) ==
  LET y == e.y
      T == T4(e.t)
      TN == T4(e.tn)
      TP == T4(e.tp)
      Y == InYear(T, y)
      scoped == ~Exempt(y)
      pairNext == ~Exempt(y) /\ ~Exempt(y + 1)
      pairPrev == ~Exempt(y) /\ ~Exempt(y - 1) /\ Len(TP) > 0
  IN IF e.p # 0 THEN Chk("C06.year.panic", y, FALSE)
     ELSE
       Chk("C06.table.shape", y, Len(T) = 15 /\ \A i \in 1..Len(e.t) : e.t[i][6] = 0)
       + (IF ~scoped THEN 0 ELSE
            Chk("C06.months.contiguous", y, Contiguous(T))
            + Chk("C06.months.length29or30", y, Lengths2930(T))
            + Chk("C06.year.numbering", << y, [i \in 1..Len(Y) |-> MM(Y[i])] >>, Len(Y) >= 1 /\ Numbering(Y))
            + Chk("C06.year.length", << y, YearLength(Y) >>, LengthOK(Y))
            + Chk("C06.year.leapMonth", << y, e.leap >>, e.leap = LeapOf(Y))
            + Chk("C06.year.dayCount", << y, e.days >>, e.days = YearLength(Y))
            + Chk("C06.year.monthsInYear", y, T4(e.inyear) = Y)
            + SumSeq(e.get, LAMBDA x :
                LET has == HasMonth(Y, y, x[1])
                IN Chk("C06.year.getMonth", << y, x[1] >>,
                       /\ ((x[2] = 0) <=> has) /\ ((x[3] = 0) <=> has)
                       /\ has => (Len(x) = 15 /\ << x[4], x[5], x[6], x[7] >> = MonthRow(Y, y, x[1])
                                  /\ << x[10], x[11], x[12], x[13] >> = MonthRow(Y, y, x[1])))))
       + (IF pairNext THEN Chk("C06.neighbours.agree", << y, y + 1 >>, Agree(T, TN) /\ Contiguous(TN) /\ Len(TN) = 15) ELSE 0)
       + (IF pairPrev THEN Chk("C06.neighbours.agree", << y - 1, y >>, Agree(TP, T)) ELSE 0)
       \* New Year's Eve
       + (IF ~pairNext THEN 0
          ELSE IF e.eve.p # 0 THEN Chk("C06.eve.panic", y, FALSE)
          ELSE LET lastRow == Y[Len(Y)]
               IN Chk("C06.eve.next-is-new-year", << y, e.eve.last, e.eve.next >>,
                      /\ e.eve.last = << y, MM(lastRow), MCnt(lastRow) >>
                      /\ e.eve.next = << y + 1, 1, 1 >>))
       \* month navigation
       + SumSeq(e.nav, LAMBDA nv :
           LET f == nv.from
           IN SumSeq(nv.r, LAMBDA x :
                LET n == x[1]
                    key == << f[1], f[2], n >>
                    res == << x[5], x[6], x[7], x[8] >>
                    back == << x[9], x[10], x[11], x[12] >>
                IN IF x[2] # 0 \/ x[3] # 0 \/ x[4] # 0 THEN (IF scoped /\ pairNext /\ pairPrev THEN Chk("C06.next.panic-or-nil", key, FALSE) ELSE 0)
                   ELSE
                     (IF n = 0 /\ scoped THEN Chk("C06.next.zero", key, res = f) ELSE 0)
                     + (IF n = 1 /\ pairNext THEN Chk("C06.next.successor", << key, res >>, res = SuccIn(T, TN, f[1], f[2])) ELSE 0)
                     + (IF n = -1 /\ pairPrev THEN Chk("C06.next.predecessor", << key, res >>, res = PredIn(T, TP, f[1], f[2])) ELSE 0)
                     \* n forward then n back returns to the start (no exempt year within reach: |n| <= 40 < 4 years)
                     + (IF ~(\E z \in (y - 4)..(y + 4) : Exempt(z)) THEN Chk("C06.next.back", << key, back >>, back = f) ELSE 0)
                     \* moving n months = moving one month n times
                     + (IF Len(x) = 17 /\ ~(\E z \in (y - 4)..(y + 4) : Exempt(z))
                          THEN Chk("C06.next.n-equals-n-times-one", << key, res >>, x[13] = 0 /\ << x[14], x[15], x[16], x[17] >> = res)
                          ELSE 0)
                     \* the walk is monotone: first day strictly moves in the direction of n
                     + (IF scoped /\ n # 0 /\ ~(\E z \in (y - 4)..(y + 4) : Exempt(z))
                          THEN Chk("C06.next.direction", << key, res >>, (n > 0) <=> (res[4] > f[4])) ELSE 0)))

C06Year == IsEv("C06Year") /\ Consume(C06Checks(Trace[l]))

(***************************************************************************)
(* Edges of MC_Lunar's state graph executed on the real objects; e.exp is  *)
(* the model's successor state << year, month, day, dayCount, firstJdn >>. *)
(***************************************************************************)
LunarEdge ==
  /\ IsEv("LunarEdge")
  /\ LET e == Trace[l]
         key == << e.from, e.op, e.n >>
     IN Consume(IF e.p # 0 THEN Chk(IF e.op = "MonthNext" THEN "C06.edge.MonthNext.panic" ELSE "C01.edge.DayNext.panic", key, FALSE)
                ELSE IF e.op = "MonthNext"
                  THEN Chk("C06.edge.MonthNext", << key, e.res >>, e.res = << e.exp[1], e.exp[2], e.exp[4], e.exp[5] >>)
                  ELSE Chk("C01.edge.DayNext", << key, e.res >>,
                           /\ << e.res[1], e.res[2], e.res[3] >> = << e.exp[1], e.exp[2], e.exp[3] >>
                           /\ e.res[4] = e.exp[5] + e.exp[3] - 1
                           /\ << e.res[5], e.res[6], e.res[7] >> = << e.exp[1], e.exp[2], e.exp[3] >>))

TraceInit == KitInit
TraceNext == C06Year \/ LunarEdge
TraceSpec == TraceInit /\ [][TraceNext]_tvars
=============================================================================
