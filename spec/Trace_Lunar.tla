----------------------------- MODULE Trace_Lunar -----------------------------
(***************************************************************************)
(* Trace specification of the lunar family: C06 (year structure, month     *)
(* navigation), C01 (civil <-> lunar bijection), C03 (solar terms), ...    *)
(***************************************************************************)
EXTENDS Civil, LunarTable, Terms, GanZhi, TraceKit   \* (Vocab comes in through Terms)

tvars == << l, rej >>
SeqSet(s) == { s[i] : i \in 1..Len(s) }
T4(t) == [i \in 1..Len(t) |-> Row4(t[i])]
AbsV(x) == IF x < 0 THEN -x ELSE x

(***************************************************************************)
(* C06Year                                                                 *)
(***************************************************************************)
C06Checks(e) ==
  LET y == e.y
      T == T4(e.t)
      TN == T4(e.tn)
      TP == T4(e.tp)
      Y == InYear(T, y)
      scoped == ~Exempt(y)
      pairNext == ~Exempt(y) /\ ~Exempt(y + 1)
      pairPrev == ~Exempt(y) /\ ~Exempt(y - 1) /\ Len(TP) > 0
  IN IF e.p # 0 THEN Chk("C06.year.panic", y, FALSE)
     ELSE
       Chk("C06.table.shape", y, Len(T) = 15 /\ \A i \in 1..Len(e.t) : e.t[i][6] = 0)
       \* the table read again after the leap-month / day-count / month-list / single-month accessors: they report, they do not edit
       + Chk("C06.table.unchanged-by-accessors", y, e.t2 = e.t)
       + (IF ~scoped THEN 0 ELSE
            Chk("C06.months.contiguous", y, Contiguous(T))
            + Chk("C06.months.length29or30", y, Lengths2930(T))
            + Chk("C06.year.numbering", << y, [i \in 1..Len(Y) |-> MM(Y[i])] >>, Len(Y) >= 1 /\ Numbering(Y))
            + Chk("C06.year.length", << y, YearLength(Y) >>, LengthOK(Y))
            + Chk("C06.year.leapMonth", << y, e.leap >>, e.leap = LeapOf(Y))
            + Chk("C06.year.dayCount", << y, e.days >>, e.days = YearLength(Y))
            + Chk("C06.year.monthsInYear", y, T4(e.inyear) = Y)
            + SumSeq(e.get, LAMBDA x :
                LET has == HasMonth(Y, y, x[1])
                IN Chk("C06.year.getMonth", << y, x[1] >>,
                       /\ ((x[2] = 0) <=> has) /\ ((x[3] = 0) <=> has)
                       /\ has => (Len(x) = 15 /\ << x[4], x[5], x[6], x[7] >> = MonthRow(Y, y, x[1])
                                  /\ << x[10], x[11], x[12], x[13] >> = MonthRow(Y, y, x[1])))))
       + (IF pairNext THEN Chk("C06.neighbours.agree", << y, y + 1 >>, Agree(T, TN) /\ Contiguous(TN) /\ Len(TN) = 15) ELSE 0)
       + (IF pairPrev THEN Chk("C06.neighbours.agree", << y - 1, y >>, Agree(TP, T)) ELSE 0)
       \* extension (outside C06): three-cycle / nine-period names and the 'how many dragons' year omens
       + (IF Has(e, "yr") /\ HasMonth(Y, y, 1)
            THEN LET d1 == DayIdx(MJ(MonthRow(Y, y, 1)))             \* pillar of the first day of month 1
                     byZ(z) == Numeral12[((z - (d1 % 12)) % 12) + 1]    \* ordinal of the first day with branch z
                     byG(g) == Numeral12[((g - (d1 % 10)) % 10) + 1]
                     cyc == (y - 1864) \div 60
                 IN Chk("EXT.lunarYear.yuan-yun", << y, e.yr[1], e.yr[2] >>,
                        /\ e.yr[1] = << "上", "中", "下" >>[(cyc % 3) + 1] \o "元"
                        /\ e.yr[2] = StarNumber[((((y - 1864) \div 20) % 9)) + 1] \o "运"
                        /\ e.yr[3] = GanZhiName(YearIdx(y)))
                    + Chk("EXT.lunarYear.omens", << y, d1, e.yr >>,
                          /\ e.yr[4] = byZ(0) \o "鼠偷粮" /\ e.yr[5] = "草子" \o byZ(0) \o "分" /\ e.yr[6] = byZ(1) \o "牛耕田"
                          /\ e.yr[7] = "花收" \o byZ(3) \o "分" /\ e.yr[8] = byZ(4) \o "龙治水" /\ e.yr[9] = byZ(6) \o "马驮谷"
                          /\ e.yr[10] = byZ(9) \o "鸡抢米" /\ e.yr[11] = byZ(9) \o "姑看蚕" /\ e.yr[12] = byZ(11) \o "屠共猪"
                          /\ e.yr[13] = "甲田" \o byG(0) \o "分" /\ e.yr[14] = byG(2) \o "人分饼" /\ e.yr[15] = byG(7) \o "日得金"
                          /\ e.yr[16] = byZ(2) \o "人" \o byG(2) \o "丙" /\ e.yr[17] = byZ(2) \o "人" \o byG(3) \o "锄")
            ELSE 0)
       \* New Year's Eve
       + (IF ~pairNext THEN 0
          ELSE IF e.eve.p # 0 THEN Chk("C06.eve.panic", y, FALSE)
          ELSE LET lastRow == Y[Len(Y)]
               IN Chk("C06.eve.next-is-new-year", << y, e.eve.last, e.eve.next >>,
                      /\ e.eve.last = << y, MM(lastRow), MCnt(lastRow) >>
                      /\ e.eve.next = << y + 1, 1, 1 >>))
       \* month navigation
       + SumSeq(e.nav, LAMBDA nv :
           LET f == nv.from
           IN SumSeq(nv.r, LAMBDA x :
                LET n == x[1]
                    key == << f[1], f[2], n >>
                    res == << x[5], x[6], x[7], x[8] >>
                    back == << x[9], x[10], x[11], x[12] >>
                IN IF x[2] # 0 \/ x[3] # 0 \/ x[4] # 0 THEN (IF scoped /\ pairNext /\ pairPrev THEN Chk("C06.next.panic-or-nil", key, FALSE) ELSE 0)
                   ELSE
                     (IF n = 0 /\ scoped THEN Chk("C06.next.zero", key, res = f) ELSE 0)
                     + (IF n = 1 /\ pairNext THEN Chk("C06.next.successor", << key, res >>, res = SuccIn(T, TN, f[1], f[2])) ELSE 0)
                     + (IF n = -1 /\ pairPrev THEN Chk("C06.next.predecessor", << key, res >>, res = PredIn(T, TP, f[1], f[2])) ELSE 0)
                     \* n forward then n back returns to the start (no exempt year within reach of the walk)
                     + (IF ~(\E z \in (y - 4 - AbsV(n) \div 12)..(y + 4 + AbsV(n) \div 12) : Exempt(z)) THEN Chk("C06.next.back", << key, back >>, back = f) ELSE 0)
                     \* moving n months = moving one month n times
                     + (IF Len(x) = 17 /\ ~(\E z \in (y - 4 - AbsV(n) \div 12)..(y + 4 + AbsV(n) \div 12) : Exempt(z))
                          THEN Chk("C06.next.n-equals-n-times-one", << key, res >>, x[13] = 0 /\ << x[14], x[15], x[16], x[17] >> = res)
                          ELSE 0)
                     \* the walk is monotone: first day strictly moves in the direction of n
                     + (IF scoped /\ n # 0 /\ ~(\E z \in (y - 4 - AbsV(n) \div 12)..(y + 4 + AbsV(n) \div 12) : Exempt(z))
                          THEN Chk("C06.next.direction", << key, res >>, (n > 0) <=> (res[4] > f[4])) ELSE 0)))

C06Year == IsEv("C06Year") /\ Consume(C06Checks(Trace[l]))

(***************************************************************************)
(* Edges of MC_Lunar's state graph executed on the real objects; e.exp is  *)
(* the model's successor state << year, month, day, dayCount, firstJdn >>. *)
(***************************************************************************)
LunarEdge ==
  /\ IsEv("LunarEdge")
  /\ LET e == Trace[l]
         key == << e.from, e.op, e.n >>
     IN Consume(IF e.p # 0 THEN Chk(IF e.op = "MonthNext" THEN "C06.edge.MonthNext.panic" ELSE "C01.edge.DayNext.panic", key, FALSE)
                ELSE IF e.op = "MonthNext"
                  THEN Chk("C06.edge.MonthNext", << key, e.res >>, e.res = << e.exp[1], e.exp[2], e.exp[4], e.exp[5] >>)
                  ELSE Chk("C01.edge.DayNext", << key, e.res >>,
                           /\ << e.res[1], e.res[2], e.res[3] >> = << e.exp[1], e.exp[2], e.exp[3] >>
                           /\ e.res[4] = e.exp[5] + e.exp[3] - 1
                           /\ << e.res[5], e.res[6], e.res[7] >> = << e.exp[1], e.exp[2], e.exp[3] >>))

(***************************************************************************)
(* C01Year: every day of a civil year through both conversion routes.      *)
(***************************************************************************)
HMS(sod) == << HourOf(sod), MinuteOf(sod), SecondOf(sod) >>
PosInTable(T, y, m) == CHOOSE i \in 1..Len(T) : MY(T[i]) = y /\ MM(T[i]) = m
C01Checks(e) ==
  LET y == e.y
      T == T4(e.t)
      R == e.rows
      n == Len(R)
      okRow(i) == R[i].pa = 0 /\ HasMonth(T, R[i].a[1], R[i].a[2])
      Ord(i) == << PosInTable(T, R[i].a[1], R[i].a[2]), R[i].a[3] >>
  IN IF e.p # 0 THEN Chk("C01.table.panic", y, FALSE)
     ELSE
       \* the 15 months of table Y cover every day of civil year Y
       Chk("C01.table.covers-year", y, Len(T) = 15 /\ Covered(T, JDN(y, 1, 1)) /\ Covered(T, JDN(y, 12, 31)))
       + SumSeq(R, LAMBDA x :
           LET c == x.c
               J == JDN(c[1], c[2], c[3])
               k == << c[1], c[2], c[3], c[4] >>
               t3 == HMS(c[4])
           IN IF x.pa # 0 THEN Chk("C01.toLunar.panic", k, FALSE)
              ELSE
                \* civil -> lunar: the unique month of the year's table containing the day
                Chk("C01.toLunar", << k, x.a >>, /\ UniqueMonth(T, J)
                                                 /\ << x.a[1], x.a[2], x.a[3] >> = ToLunar(T, J)
                                                 /\ << x.a[4], x.a[5], x.a[6] >> = t3)
                + Chk("C01.toLunar.keeps-civil", << k, x.as >>, x.as = << c[1], c[2], c[3] >> \o t3)
                \* lunar -> civil -> lunar through the constructor
                + (IF x.pb # 0 THEN Chk("C01.fromLunar.panic", << k, x.a >>, FALSE)
                   ELSE Chk("C01.fromLunar.civil-day", << k, x.a, x.bs >>, x.bs = << c[1], c[2], c[3] >> \o t3)
                        + Chk("C01.fromLunar.fields", << k, x.a, x.b >>, x.b = x.a)
                        + Chk("C01.fromLunar.back", << k, x.a, x.bl >>, x.bl = x.a)
                        \* path independence: all zero-argument getters agree
                        + (IF Has(x, "da") THEN Chk("C01.path-independence", << k, x.a, IF Has(x, "diff") THEN x.diff ELSE "" >>, x.da = x.db) ELSE 0))
                \* stepping n days on the lunar side = stepping n days on the civil side
                + SumSeq(x.nx, LAMBDA nx :
                     IF nx[2] # 0 THEN Chk("C01.next.panic", << k, nx[1] >>, FALSE)
                     ELSE Chk("C01.next.civil-day", << k, nx[1] >>, nx[9] = J + nx[1] /\ nx[10] = c[4])
                          + Chk("C01.next.same-as-civil-route", << k, nx[1] >>,
                                << nx[3], nx[4], nx[5], nx[6], nx[7], nx[8] >> = << nx[11], nx[12], nx[13], nx[14], nx[15], nx[16] >>)))
       \* order preservation along the year: lunar (year, month position, day) strictly increases with the civil day
       + SumN(n - 1, LAMBDA i :
           IF okRow(i) /\ okRow(i + 1)
             THEN Chk("C01.order", << R[i].c, R[i].a, R[i + 1].a >>,
                      LET a == Ord(i) b == Ord(i + 1) IN a[1] < b[1] \/ (a[1] = b[1] /\ a[2] < b[2]))
             ELSE 0)
       \* one-to-one: no two civil days of the year share a lunar date
       + Chk("C01.injective", y, Cardinality({ << R[i].a[1], R[i].a[2], R[i].a[3] >> : i \in { j \in 1..n : R[j].pa = 0 } })
                                 = Cardinality({ j \in 1..n : R[j].pa = 0 }))

C01Year == IsEv("C01Year") /\ Consume(C01Checks(Trace[l]))

(***************************************************************************)
(* C03Year: the solar-term table of a civil year and lookups around it.    *)
(***************************************************************************)
\* tolerance (micro-degrees) of the independent low-precision solar longitude: 0.02 degree up to year
\* 3000, then growing with the square of the distance (the series is a polynomial fit around J2000),
\* plus the effect of the two Delta-T models disagreeing by dt seconds (the sun moves 11.4 udeg/s)
IndepTol(y, dt) == 20000 + (IF y > 3000 THEN (12 * (y - 3000) * (y - 3000)) \div 1000 ELSE 0) + 12 * dt
AbsI(x) == IF x < 0 THEN -x ELSE x
\* observed JieQi object -> << position name, instant >>
JqInst(o) == [jdn |-> JDN(o[2], o[3], o[4]), sod |-> Sod(o[5], o[6], o[7])]
C03Checks(e) ==
  LET y == e.y
      n == Len(e.jd)
      \* instants at one-second resolution, as the table of Solar objects publishes them
      Tab == [i \in 1..Len(e.tab) |-> [jdn |-> JDN(e.tab[i][2], e.tab[i][3], e.tab[i][4]), sod |-> Sod(e.tab[i][5], e.tab[i][6], e.tab[i][7])]]
      tabOK == Len(e.tab) = 31 /\ \A i \in 1..Len(e.tab) : Len(e.tab[i]) = 7 /\ ValidDateTime(e.tab[i][2], e.tab[i][3], e.tab[i][4], e.tab[i][5], e.tab[i][6], e.tab[i][7])
      Look(name, q, o, pos) ==
        \* o: observed JieQi (empty = nil); pos: expected table position (0 = none)
        IF pos = 0 THEN Chk("C03.lookup." \o name, << q.at, o >>, Len(o) = 0)
        ELSE Chk("C03.lookup." \o name, << q.at, o, pos >>,
                 /\ Len(o) = 9 /\ o[1] = TermName31(pos) /\ JqInst(o) = Tab[pos]
                 /\ (o[8] = 1) = IsJiePos(pos) /\ (o[9] = 1) = ~IsJiePos(pos))
  IN IF e.p # 0 THEN Chk("C03.year.panic", y, FALSE)
     ELSE IF ~tabOK THEN Chk("C03.table.shape", << y, Len(e.tab) >>, FALSE)
     ELSE
       Chk("C03.table.31-entries", y, n = 31 /\ e.tablen = 31)
       + Chk("C03.table.canonical-order", y, \A i \in 1..31 : e.tab[i][1] = TermKeys31[i])
       \* the year object a caller holds keeps its table while tables of other years are built
       + Chk("C03.table.held-object-unchanged", y, e.jdheld = e.jd)
       \* the published date-time is the real-valued instant rounded to the nearest second
       + SumN(31, LAMBDA i :
           Chk("C03.table.instant", << y, i, e.jd[i], e.tab[i] >>,
               \* an instant within half a millisecond of a half second may round either way
               IF e.jd[i][2] % 1000 = 500
                 THEN Tab[i] \in { RoundMs(e.jd[i][1], e.jd[i][2] \div 1000, 499), RoundMs(e.jd[i][1], e.jd[i][2] \div 1000, 500) }
                 ELSE Tab[i] = RoundMs(e.jd[i][1], e.jd[i][2] \div 1000, e.jd[i][2] % 1000)))
       + Chk("C03.table.increasing", y, StrictlyIncreasing(Tab))
       + Chk("C03.table.spacing", y, SpacingOK(Tab))
       \* adjacent years share entries 25..31 / 1..7
       + Chk("C03.table.shared-with-next-year", y, Len(e.nx) = 31 /\ \A i \in 1..7 : e.nx[i] = e.jd[24 + i])
       \* the instant is the root of the library's own longitude function at one-second precision
       + SumN(31, LAMBDA i :
           Chk("C03.longitude.own-ephemeris", << y, i, e.lon[i] >>, e.lon[i][1] <= 0 /\ e.lon[i][2] >= 0 /\ e.lon[i][2] - e.lon[i][1] < 60000)
           + Chk("C03.longitude.independent", << y, i, e.lon[i] >>, AbsI(e.lon[i][3]) <= IndepTol(y, e.lon[i][4])))
       \* lookups
       + SumSeq(e.q, LAMBDA q :
           IF q.p # 0 THEN Chk("C03.lookup.panic", q.at, FALSE)
           ELSE LET t == [jdn |-> JDN(q.at[1], q.at[2], q.at[3]), sod |-> Sod(q.at[4], q.at[5], q.at[6])]
                    dj == OfDayPos(Tab, t.jdn, "all")
                    djie == OfDayPos(Tab, t.jdn, "jie")
                    dqi == OfDayPos(Tab, t.jdn, "qi")
                    nm(pos) == IF pos = 0 THEN "" ELSE TermName31(pos)
                    Cur(name, o, pos) == IF pos = 0 THEN Chk("C03.current." \o name, << q.at, o >>, Len(o) = 0)
                                         ELSE Chk("C03.current." \o name, << q.at, o >>, Len(o) = 9 /\ o[1] = TermName31(pos)
                                                  /\ << o[2], o[3], o[4] >> = << q.at[1], q.at[2], q.at[3] >>
                                                  /\ (o[8] = 1) = IsJiePos(pos) /\ (o[9] = 1) = ~IsJiePos(pos))
                IN Look("prevJie", q, q.pj, PrevPos(Tab, t, "jie", FALSE)) + Look("nextJie", q, q.nj, NextPos(Tab, t, "jie", FALSE))
                   + Look("prevQi", q, q.pq, PrevPos(Tab, t, "qi", FALSE)) + Look("nextQi", q, q.nq, NextPos(Tab, t, "qi", FALSE))
                   + Look("prevJieQi", q, q.pa, PrevPos(Tab, t, "all", FALSE)) + Look("nextJieQi", q, q.na, NextPos(Tab, t, "all", FALSE))
                   + Look("prevJie.wholeDay", q, q.pjw, PrevPos(Tab, t, "jie", TRUE)) + Look("nextJie.wholeDay", q, q.njw, NextPos(Tab, t, "jie", TRUE))
                   + Look("prevQi.wholeDay", q, q.pqw, PrevPos(Tab, t, "qi", TRUE)) + Look("nextQi.wholeDay", q, q.nqw, NextPos(Tab, t, "qi", TRUE))
                   + Look("prevJieQi.wholeDay", q, q.paw, PrevPos(Tab, t, "all", TRUE)) + Look("nextJieQi.wholeDay", q, q.naw, NextPos(Tab, t, "all", TRUE))
                   + Chk("C03.ofDay.name", << q.at, q.name >>, q.name = << nm(dj), nm(djie), nm(dqi) >>)
                   + Cur("jieQi", q.cur[1], dj) + Cur("jie", q.cur[2], djie) + Cur("qi", q.cur[3], dqi)
                   \* a date built from its lunar numbers carries the same table as the same date converted from the civil day
                   + (IF Has(q, "tb2") THEN Chk("C03.table.same-by-either-construction", << q.at, q.tb2 >>, q.tb2[1] = q.tb2[2]) ELSE 0))

C03Year == IsEv("C03Year") /\ Consume(C03Checks(Trace[l]))

(***************************************************************************)
(* C05Year: pillars at the moments where they change.                      *)
(***************************************************************************)
TabOf31(tab) == [i \in 1..Len(tab) |-> [jdn |-> JDN(tab[i][2], tab[i][3], tab[i][4]), sod |-> Sod(tab[i][5], tab[i][6], tab[i][7])]]
TabShapeOK(tab) == Len(tab) = 31 /\ \A i \in 1..Len(tab) : Len(tab[i]) = 7 /\ tab[i][1] = TermKeys31[i]
                   /\ ValidDateTime(tab[i][2], tab[i][3], tab[i][4], tab[i][5], tab[i][6], tab[i][7])
GZ2(k) == << k % 10, k % 12 >>
C05Checks(e) ==
  LET y == e.y
      Tab == TabOf31(e.tab)
  IN IF e.p # 0 THEN Chk("C05.year.panic", y, FALSE)
     ELSE IF ~TabShapeOK(e.tab) THEN Chk("C05.table.shape", y, FALSE)
     ELSE SumSeq(e.q, LAMBDA q :
       IF q.p # 0 THEN Chk("C05.moment.panic", q.at, FALSE)
       ELSE
         LET J == JDN(q.at[1], q.at[2], q.at[3])
             sod == Sod(q.at[4], q.at[5], q.at[6])
             t == [jdn |-> J, sod |-> sod]
             yNew == YearIdx(q.ly)
             yDay == YearIdx(PillarYearByDay(y, J, Tab[5]))
             yIns == YearIdx(PillarYearByInstant(y, t, Tab[5]))
             mDay == MonthIdxByDay(y, Tab, J)
             mIns == MonthIdxByInstant(y, Tab, t)
             dPlain == DayIdx(J)
             dEarly == DayIdxEarlyRat(J, sod)
             dLate == DayIdxLateRat(J, sod)
             hIdx == HourIdx(J, sod)
             x == q.idx
             k == q.at
             Pair(i) == << x[i], x[i + 1] >>
         IN Chk("C05.year.newYear", << k, q.ly, Pair(1) >>, Pair(1) = GZ2(yNew))
            + Chk("C05.year.lichunDay", << k, Pair(3) >>, Pair(3) = GZ2(yDay))
            + Chk("C05.year.lichunInstant", << k, Pair(5) >>, Pair(5) = GZ2(yIns))
            + Chk("C05.month.jieDay", << k, Pair(7) >>, Pair(7) = GZ2(mDay))
            + Chk("C05.month.jieInstant", << k, Pair(9) >>, Pair(9) = GZ2(mIns))
            \* five tigers: the month stem is tied to the stem of the pillar year in force
            + Chk("C05.month.fiveTigers", << k, Pair(7), Pair(9) >>,
                  /\ x[7] = FiveTigersStem(StemOf(YearIdx(PillarYearByDay(y, J, Tab[5]))), (x[8] - 2) % 12)
                  /\ x[9] = FiveTigersStem(StemOf(YearIdx(PillarYearByInstant(y, t, Tab[5]))), (x[10] - 2) % 12))
            + Chk("C05.day", << k, Pair(11) >>, Pair(11) = GZ2(dPlain))
            + Chk("C05.day.earlyRat", << k, Pair(13) >>, Pair(13) = GZ2(dEarly))
            + Chk("C05.day.lateRat", << k, Pair(15) >>, Pair(15) = GZ2(dLate))
            + Chk("C05.hour", << k, Pair(17), q.tm >>, Pair(17) = GZ2(hIdx) /\ q.tm = GZ2(hIdx))
            + Chk("C05.validPair", << k, x >>, \A i \in {1, 3, 5, 7, 9, 11, 13, 15, 17} : ValidPair(x[i], x[i + 1]))
            + Chk("C05.names", << k, q.str >>,
                  q.str = << GanZhiName(yNew), GanZhiName(yDay), GanZhiName(yIns), GanZhiName(mDay), GanZhiName(mIns),
                             GanZhiName(dPlain), GanZhiName(dEarly), GanZhiName(dLate), GanZhiName(hIdx),
                             GanZhiName(yNew), GanZhiName(mDay), GanZhiName(dPlain), GanZhiName(hIdx),
                             ShengXiao[(yNew % 12) + 1], ShengXiao[(yDay % 12) + 1], ShengXiao[(yIns % 12) + 1],
                             ShengXiao[(mDay % 12) + 1], ShengXiao[(dPlain % 12) + 1], ShengXiao[(hIdx % 12) + 1] >>)
            \* extension (outside C05): the printed bounds of the two-hour slot: hh:00 .. hh+1:59 (00:00..00:59 and 23:00..23:59 for the split rat slot)
            + (IF Has(q, "hm")
                 THEN LET h == q.at[4]
                          lo == IF h < 1 THEN 0 ELSE IF h > 22 THEN 23 ELSE IF h % 2 = 0 THEN h - 1 ELSE h
                          hi == IF h < 1 THEN 0 ELSE IF h > 22 THEN 23 ELSE lo + 1
                      IN Chk("EXT.lunarTime.slot-bounds", << k, q.hm >>, q.hm = << Fmt2(lo) \o << 58, 48, 48 >>, Fmt2(hi) \o << 58, 53, 57 >> >>)
                 ELSE 0)
            + Chk("C05.eightChar.sect1", << k, q.ec1 >>, q.ec1 = << GanZhiName(yIns), GanZhiName(mIns), GanZhiName(dEarly), GanZhiName(hIdx) >>)
            + Chk("C05.eightChar.sect2", << k, q.ec2 >>, q.ec2 = << GanZhiName(yIns), GanZhiName(mIns), GanZhiName(dLate), GanZhiName(hIdx) >>)
            + Chk("C05.eightChar.deprecated-array", << k, q.bz >>,
                  q.bz = << GanZhiName(yIns), GanZhiName(mIns), GanZhiName(dLate), GanZhiName(hIdx) >>)
            + (IF Has(q, "bz1")
                 THEN Chk("C05.eightChar.deprecated-array", << k, "convention-1", q.bz1 >>,
                          q.bz1 = << GanZhiName(yIns), GanZhiName(mIns), GanZhiName(dEarly), GanZhiName(hIdx) >>)
                 ELSE 0)
            \* the hour objects of the day, whatever hour the listing object itself was built for:
            \* slot 1 is 00:00, slot i > 1 is hour 2i - 3
            + (IF Has(q, "times")
                 THEN Chk("C05.hours-of-the-day", << k, q.times >>,
                          Len(q.times) = 13 /\ \A i \in 1..13 :
                            q.times[i] = GZ2(HourIdx(J, IF i = 1 THEN 0 ELSE (2 * i - 3) * 3600)))
                 ELSE 0)
            + Chk("C05.eightChar.printed", << k, q.ecs >>,
                  q.ecs = << GanZhiName(yIns) \o " " \o GanZhiName(mIns) \o " " \o GanZhiName(dEarly) \o " " \o GanZhiName(hIdx),
                             GanZhiName(yIns) \o " " \o GanZhiName(mIns) \o " " \o GanZhiName(dLate) \o " " \o GanZhiName(hIdx) >>))

C05Year == IsEv("C05Year") /\ Consume(C05Checks(Trace[l]))
\* the clock-string helper: the branch of the two-hour slot the minute lies in (23:00-00:59 is the rat hour)
C05Clock ==
  /\ IsEv("C05Clock")
  /\ Consume(SumSeq(Trace[l].rows, LAMBDA x :
        LET b == ((x[1] + 1) \div 2) % 12
        IN Chk("C05.clock-string.hour-branch", << x[1], x[2], x[3], x[4], x[5] >>, x[6] = 0 /\ x[4] = b /\ x[5] = Zhi[b + 1])))

(***************************************************************************)
(* C02Year: new-moon days and the leap rule.                               *)
(***************************************************************************)
C02Checks(e) ==
  LET y == e.y
      T == T4(e.t)
      hs == [i \in 1..Len(T) |-> MJ(T[i])]
      zq == [k \in 1..13 |-> e.terms[2 * k][1]]
      \* an event within a minute of local midnight makes the day assignment depend on seconds: not judged
      termNearMidnight == \E k \in 1..13 : e.terms[2 * k][3] < 60
      moonNearMidnight == \E i \in 1..Len(e.nm) : AbsV(e.nm[i][1]) < 9000 \/ AbsV(e.nm[i][2]) < 9000      \* 0.009 deg = about one minute of elongation
      n == IF ThirteenMonths(hs, zq) THEN 14 ELSE 13
      labels == SuiLabels(y, LeapIndex(hs, zq), n)
  IN IF e.p # 0 THEN Chk("C02.year.panic", y, FALSE)
     ELSE
       Chk("C02.table.shape", y, Len(T) = 15 /\ Len(e.terms) = 31 /\ Len(e.nm) = 15)
       \* the reported leap month and month count are those of the table; the months this table shares with next year's
       \* (its last ones) carry the same year, number and length there
       + (LET Y == InYear(T, y)
              TN == T4(e.tn)
          IN Chk("C02.leap.accessor-matches-table", << y, e.leap, e.inyear >>, e.leap = LeapOf(Y) /\ e.inyear = Len(Y))
             + (IF Has(e, "t3") THEN Chk("C02.table.same-when-recomputed", y, e.t3 = e.t) ELSE 0)
             + Chk("C02.table.tail-agrees-with-next-year", << y, [i \in 12..15 |-> << MY(T[i]), MM(T[i]), MJ(T[i]) >>] >>,
                   \A i \in 1..Len(T), j \in 1..Len(TN) : MJ(T[i]) = MJ(TN[j]) => T[i] = TN[j]))
       \* every month begins on the UTC+8 civil day that contains the true new moon
       + SumN(Len(T), LAMBDA i :
           LET first == MJ(T[i])
               yr == YearOf(first)
               x == e.nm[i]
               key == << first, MY(T[i]), MM(T[i]) >>
           IN IF yr < 1645 \/ yr > 3000 THEN 0
              ELSE Chk("C02.newMoon.own-ephemeris", << key, x[1], x[2] >>, x[1] <= 0 /\ x[2] >= 0)
                   + (IF yr < 1929 THEN 0
                      ELSE LET near == IF x[4] < 86400 - x[4] THEN x[4] ELSE 86400 - x[4]
                           IN Chk("C02.newMoon.independent", << key, x[3], x[4] >>,
                                  x[3] = first \/ (near <= 300 + x[5] /\ AbsV(x[3] - first) <= 1))))
       \* month 11 holds the winter solstice; leap month = first month without a major term (from 1929 on)
       + (IF y < 1930 \/ termNearMidnight \/ moonNearMidnight THEN 0
          ELSE Chk("C02.solstice-month-is-11", << y, zq[1], hs[1], hs[2] >>, hs[1] <= zq[1] /\ zq[1] < hs[2])
               + Chk("C02.leap.thirteen-months-iff-leap", << y, ThirteenMonths(hs, zq) >>,
                     ThirteenMonths(hs, zq) = (\E i \in 1..n : MM(T[i]) < 0) /\ (ThirteenMonths(hs, zq) => LeapIndex(hs, zq) # 0))
               + Chk("C02.leap.placement-and-numbering", << y, LeapIndex(hs, zq), [i \in 1..n |-> << MY(T[i]), MM(T[i]) >>] >>,
                     [i \in 1..n |-> << MY(T[i]), MM(T[i]) >>] = labels))
C02Year == IsEv("C02Year") /\ Consume(C02Checks(Trace[l]))

(***************************************************************************)
(* C02Icu: the month table against ICU's Chinese calendar (1900..2100).    *)
(* ICU's new moons / terms are good to about a quarter of an hour: a       *)
(* disagreement is accepted (counted as ambiguous) only next to a new moon *)
(* of the library's own ephemeris within 0.13 degree of elongation         *)
(* (15 min) of midnight, or - for leap labelling - in a year with a term   *)
(* within 10 minutes of midnight.                                          *)
(***************************************************************************)
C02IcuChecks(e) ==
  LET nearMoon(j) == \E i \in 1..Len(e.nm) : e.nm[i][1] <= j + 1 /\ j + 1 <= e.nm[i][1] + 31
                                             /\ (AbsV(e.nm[i][2]) < 130000 \/ AbsV(e.nm[i][3]) < 130000)
      nearTerm == \E i \in 1..Len(e.terms) : e.terms[i][2] < 600
  IN SumSeq(e.rows, LAMBDA r :
       IF << r[4], r[5], r[6] >> = << r[7], r[8], r[9] >> THEN 0
       ELSE IF r[6] = r[9] /\ r[4] = r[7]
         THEN Chk("C02.icu.leap-labelling", << r[1], r[2], r[3], << r[4], r[5], r[6] >>, << r[7], r[8], r[9] >> >>, nearTerm \/ nearMoon(r[10]))
         ELSE Chk("C02.icu.month-start", << r[1], r[2], r[3], << r[4], r[5], r[6] >>, << r[7], r[8], r[9] >> >>, nearMoon(r[10])))
C02Icu == IsEv("C02Icu") /\ Consume(C02IcuChecks(Trace[l]))

\* C06Pair: the structural clauses for every lunar year (compact frame: table + successor's table)
C06PairChecks(e) ==
  LET y == e.y
      T == T4(e.t)
      TN == T4(e.tn)
      Y == InYear(T, y)
  IN IF e.p # 0 THEN Chk("C06.year.panic", y, FALSE)
     ELSE Chk("C06.table.shape", y, Len(T) = 15 /\ Len(TN) = 15)
          + (IF Exempt(y) THEN 0 ELSE
               Chk("C06.months.contiguous", y, Contiguous(T))
               + Chk("C06.months.length29or30", y, Lengths2930(T))
               + Chk("C06.year.numbering", << y, [i \in 1..Len(Y) |-> MM(Y[i])] >>, Len(Y) >= 1 /\ Numbering(Y))
               + Chk("C06.year.length", << y, YearLength(Y) >>, LengthOK(Y))
               + Chk("C06.year.leapMonth", << y, e.leap >>, e.leap = LeapOf(Y))
               + Chk("C06.year.dayCount", << y, e.days >>, e.days = YearLength(Y)))
          + (IF Exempt(y) \/ Exempt(y + 1) THEN 0 ELSE Chk("C06.neighbours.agree", << y, y + 1 >>, Agree(T, TN)))
C06Pair == IsEv("C06Pair") /\ Consume(C06PairChecks(Trace[l]))

TraceInit == KitInit
TraceNext == C06Year \/ LunarEdge \/ C01Year \/ C03Year \/ C05Year \/ C05Clock \/ C02Year \/ C02Icu \/ C06Pair
TraceSpec == TraceInit /\ [][TraceNext]_tvars
=============================================================================
