------------------------------ MODULE MC_Cache ------------------------------
EXTENDS Cache
ProcsV == {1, 2, 3}
Procs4 == {1, 2, 3, 4}
YearsV == {2020, 2021}
NoBad == {}
OneBad == {2021}
\* schedules only: the request of each call is irrelevant for the acquisition order
viewOrder == << pc, left, holder, order >>
=============================================================================
