------------------------------ MODULE NineStar ------------------------------
(***************************************************************************)
(* Nine-star values (index 0 = star one ... 8 = star nine).                *)
(***************************************************************************)
EXTENDS Integers, Sequences, Seasonal

\* year star: steps back by one per pillar year, 2024 is star three (index 2)
YearStar(yp) == (2 - (yp - 2024)) % 9
\* the jiazi day nearest a solstice day; on a 30/30 tie both neighbours are acceptable
NearestJiaZi(sol) == LET k == DayIdx(sol) IN IF k <= 29 THEN sol - k ELSE sol + (60 - k)
NearestJiaZiAlt(sol) == LET k == DayIdx(sol) IN IF k = 30 THEN sol - 30 ELSE NearestJiaZi(sol)
\* day star given the anchors: w0 (winter, previous December), s (summer), w1 (winter, this December),
\* sp (summer of the previous year)
DayStar(j, sp, w0, s, w1) ==
  IF j >= w1 THEN (j - w1) % 9
  ELSE IF j >= s THEN 8 - ((j - s) % 9)
  ELSE IF j >= w0 THEN (j - w0) % 9
  ELSE 8 - ((j - sp) % 9)
\* hour star: ascending from the winter-solstice day to the day before the summer-solstice day
HourAscending(T, j) == (j >= T[PosDongZhiPrev].jdn /\ j < T[PosXiaZhi].jdn) \/ j >= T[PosDongZhi].jdn
\* start value by the group of the day branch: 子午卯酉 / 辰戌丑未 / 寅申巳亥
HourStart(dayBranch, asc) == IF dayBranch % 3 = 0 THEN (IF asc THEN 0 ELSE 8)
                             ELSE IF dayBranch % 3 = 1 THEN (IF asc THEN 3 ELSE 5)
                             ELSE (IF asc THEN 6 ELSE 2)
HourStar(dayBranch, asc, slot) == IF asc THEN (HourStart(dayBranch, asc) + slot) % 9
                                  ELSE (HourStart(dayBranch, asc) - slot) % 9
=============================================================================
