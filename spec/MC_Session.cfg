SPECIFICATION Spec
CONSTANTS
  NObj = 2
  NHandle = 2
  NInst = 3
  NDate = 2
  NFix = 4
  MaxSteps = 4
  InstDate <- MCInstDate
INVARIANTS TypeOK AliasAgree SectIsLastSet HolIsLastFix NamesIsLastRename
PROPERTIES DefaultSect ObjectsIsolated HandlesStable FixLocal KeysStable
CHECK_DEADLOCK FALSE
