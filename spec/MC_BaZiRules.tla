---------------------------- MODULE MC_BaZiRules -----------------------------
(***************************************************************************)
(* Laws of BaZiRules.tla over the whole grid (10 day masters x 10 stems x  *)
(* 12 branches x 60 pairs): the rules are total and have the shape the     *)
(* tradition says they have.                                               *)
(***************************************************************************)
EXTENDS BaZiRules, FiniteSets, TLC
VARIABLES d, o, z
vars == << d, o, z >>
Init == d \in 0..9 /\ o \in 0..9 /\ z \in 0..11
Next == UNCHANGED vars
Spec == Init /\ [][Next]_vars
\* every day master sees each of the ten gods on exactly one stem; itself as its own companion
TenGodsBijective == Cardinality({ TenGod(d, x) : x \in 0..9 }) = 10 /\ TenGod(d, d) = "比肩" /\ TenGod(d, o) \in TenGodNames
\* the relation is the mirror of its inverse: if o is d's wealth then d is o's officer/killer, resource <-> output, peer <-> peer
Mirror == LET a == TenGod(d, o) b == TenGod(o, d) IN
            /\ (a \in {"偏财", "正财"}) <=> (b \in {"七杀", "正官"})
            /\ (a \in {"食神", "伤官"}) <=> (b \in {"偏印", "正印"})
            /\ (a \in {"比肩", "劫财"}) <=> (b \in {"比肩", "劫财"})
\* each stem passes through the twelve stages once; the prosperous stage falls on a branch of the stem's own element,
\* and the grave on an earth branch
StagesBijective == Cardinality({ LifeStage(d, x) : x \in 0..11 }) = 12
Prosperous == LifeStage(d, z) = "帝旺" => (BranchElem[z + 1] = StemElem(d) \/ StemElem(d) = 2)
Grave == LifeStage(d, z) = "墓" => BranchElem[z + 1] = 2
\* the main hidden stem of a branch has the branch's element
MainHidden == StemElem(HideGan[z + 1][1]) = BranchElem[z + 1]
\* tabulated empty branches = derived ones; nayin pairs; conception pillars are valid pairs (same parity)
XunLaw == \A k \in 0..59 : XunKongOf(k) = XunKongDerived(k) /\ XunOf(k) = GanZhiName(k - (k % 10))
ValidPair(s) == \E k \in 0..59 : GanZhiName(k) = s
Conception == \A k \in 0..59 : ValidPair(TaiYuan(k % 10, k % 12)) /\ ValidPair(TaiXi(k % 10, k % 12))
=============================================================================
