----------------------------- MODULE MC_Zodiac -----------------------------
(***************************************************************************)
(* A cursor walks day by day through whole years (all 14 year types, 1582, *)
(* Julian leap years).  Zodiac: the sign is a function of (month, day),    *)
(* advances by exactly one sign exactly on the conventional first days,    *)
(* twelve changes per year.  Rule festivals: each k-th / last weekday rule *)
(* and each fixed-date rule selects exactly one day of every year.         *)
(***************************************************************************)
EXTENDS Civil, Vocab, TLC
CONSTANTS Years
VARIABLES jdn
Init == jdn \in { JDN(y, 1, 1) : y \in Years }
Next == YearOf(jdn + 1) = YearOf(jdn) /\ jdn' = jdn + 1
Spec == Init /\ [][Next]_jdn
T == YmdOf(jdn)
Z == ZodiacOf(T[2], T[3])
InRange == Z \in 0..11
StartsToday == T[2] * 100 + T[3] \in { ZodiacStart[i] : i \in 1..12 }
\* the day a sign begins is its conventional first day
StartDay == StartsToday => ZodiacStart[Z + 1] = T[2] * 100 + T[3]
SignStep == [][ LET t == YmdOf(jdn') z == ZodiacOf(t[2], t[3])
                    starts == t[2] * 100 + t[3] \in { ZodiacStart[i] : i \in 1..12 }
                \* 1582: the ten dropped days contain no sign start, so the law holds across the gap too
                IN IF starts THEN z = (Z + 1) % 12 ELSE z = Z ]_jdn
\* independent of the year: evaluated on (m, d) only - by construction; stated for the reader
YearIndependent == \A y \in {4, 2001} : ValidYmd(y, T[2], T[3]) => ZodiacOf(T[2], T[3]) = Z
DaysOfYear == { JDN(T[1], 1, 1) + i : i \in 0..(DaysInYear(T[1]) - 1) }
Hits(q) == { j \in DaysOfYear : LET t == YmdOf(j) IN t[2] = q[1] /\ ((q[2] > 0 /\ IsKthWeekday(t[1], t[2], t[3], q[2], q[3]))
                                                                    \/ (q[2] = 0 /\ IsLastWeekday(t[1], t[2], t[3], q[3]))) }
\* checked once per year (at its first day)
OncePerYear == (T[2] = 1 /\ T[3] = 1) => \A q \in WeekFestivals : Cardinality(Hits(q)) = 1
FixedOnce == (T[2] = 1 /\ T[3] = 1) => \A q \in FixedFestivals : Cardinality({ j \in DaysOfYear : YmdOf(j)[2] = q[1] /\ YmdOf(j)[3] = q[2] }) = 1
YearsV == (2000..2027) \cup {4, 100, 1582, 1600, 1900, 9998}
=============================================================================
