----------------------------- MODULE MC_LeapRule -----------------------------
(***************************************************************************)
(* The no-major-term leap rule on synthetic years: 15 month starts with    *)
(* 29/30-day months, 13 major terms 30/31 days apart, the solstice placed  *)
(* on every day of the first month.  The rule always yields months 11, 12, *)
(* 1..11 in order with at most one leap month, a leap month exists exactly  *)
(* when 13 months lie between the solstice months, and the rule agrees     *)
(* with the code-shaped search (first month that ends on or before 'its'   *)
(* term) that LunarYear.compute uses.                                      *)
(***************************************************************************)
EXTENDS LunarTable, TLC
VARIABLES off, lp, tp
vars == << off, lp, tp >>
\* month-length patterns (bit i of lp: month i has 30 days) restricted to alternating-ish realistic ones
LenOf(i) == IF ((lp \div (2 ^ ((i - 1) % 6))) % 2) = 1 THEN 30 ELSE 29
RECURSIVE Hs(_)
Hs(i) == IF i = 1 THEN 1000 ELSE Hs(i - 1) + LenOf(i - 1)
hs == [i \in 1..16 |-> Hs(i)]
\* terms: 30 or 31 days apart (365.24 / 12 = 30.44): pattern tp chooses where the 31s go
Gap(k) == IF (k + tp) % 9 \in {0, 2, 4, 7} THEN 31 ELSE 30
RECURSIVE Zq(_)
Zq(k) == IF k = 1 THEN 1000 + off ELSE Zq(k - 1) + Gap(k - 1)
zq == [k \in 1..13 |-> Zq(k)]
Init == off \in 0..28 /\ lp \in {21, 42, 45, 27, 54, 13, 22, 43, 53, 26} /\ tp \in 0..8
Next == FALSE /\ UNCHANGED vars
Spec == Init /\ [][Next]_vars
\* all laws over the concrete tables (passed as arguments so that they are built once per state)
Laws(h, z) ==
  LET realistic == off < LenOf(1) /\ h[13] <= z[13] /\ z[13] < h[15]     \* solstices in month 1 and in month 13 or 14
      thirteen == ThirteenMonths(h, z)
      leap == LeapIndex(h, z)
      n == IF thirteen THEN 14 ELSE 13
      L == SuiLabels(2000, leap, n)
      nums == [i \in 1..n |-> L[i][2]]
      \* the code-shaped search: first month j whose end is on or before the (j-1)-th term after the solstice
      code == LET c == { j \in 2..13 : h[j + 1] <= z[j] } IN IF c = {} THEN 0 ELSE CHOOSE j \in c : \A k \in c : j <= k
  IN realistic =>
       \* pigeonhole: 13 terms, the 13th in month 14, leave a month without a term among 2..13
       /\ (thirteen => leap \in 2..13)
       /\ nums[1] = 11 /\ AbsMonth(nums[n]) = 11 /\ L[n][1] = 2000
       /\ Cardinality({ i \in 1..n : nums[i] < 0 }) = (IF thirteen THEN 1 ELSE 0)
       /\ \A i \in 2..n : IF nums[i] < 0 THEN nums[i] = -nums[i - 1] ELSE nums[i] = (AbsMonth(nums[i - 1]) % 12) + 1
       \* the rule agrees with the code-shaped search
       /\ (thirteen => code = leap)
RuleLaws == Laws(hs, zq)
=============================================================================
