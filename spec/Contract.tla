------------------------------ MODULE Contract ------------------------------
(***************************************************************************)
(* C08: what every exported zero-argument accessor owes its caller.        *)
(* One contract per accessor reachable from a civil or lunar date.  The     *)
(* table was drafted from the naming conventions of the API (index-like    *)
(* results stay inside their tables, names come from the published        *)
(* vocabularies, documented-present strings are non-empty, lists have no    *)
(* duplicates) and reviewed by hand; an accessor that reflection finds and  *)
(* this table does not list is rejected as unclassified.                   *)
(***************************************************************************)
EXTENDS Integers, Sequences, FiniteSets

VocabSet(n) == CASE
  n = "Gan" -> { "甲", "乙", "丙", "丁", "戊", "己", "庚", "辛", "壬", "癸" } []
  n = "Zhi" -> { "子", "丑", "寅", "卯", "辰", "巳", "午", "未", "申", "酉", "戌", "亥" } []
  n = "ShengXiao" -> { "鼠", "牛", "虎", "兔", "龙", "蛇", "马", "羊", "猴", "鸡", "狗", "猪" } []
  n = "GanZhi60" -> { "甲子", "乙丑", "丙寅", "丁卯", "戊辰", "己巳", "庚午", "辛未", "壬申", "癸酉", "甲戌", "乙亥", "丙子", "丁丑", "戊寅", "己卯", "庚辰", "辛巳", "壬午", "癸未", "甲申", "乙酉", "丙戌", "丁亥", "戊子", "己丑", "庚寅", "辛卯", "壬辰", "癸巳", "甲午", "乙未", "丙申", "丁酉", "戊戌", "己亥", "庚子", "辛丑", "壬寅", "癸卯", "甲辰", "乙巳", "丙午", "丁未", "戊申", "己酉", "庚戌", "辛亥", "壬子", "癸丑", "甲寅", "乙卯", "丙辰", "丁巳", "戊午", "己未", "庚申", "辛酉", "壬戌", "癸亥" } []
  n = "Xun6" -> { "甲子", "甲戌", "甲申", "甲午", "甲辰", "甲寅" } []
  n = "XunKong6" -> { "戌亥", "申酉", "午未", "辰巳", "寅卯", "子丑" } []
  n = "XingZuo" -> { "白羊", "金牛", "双子", "巨蟹", "狮子", "处女", "天秤", "天蝎", "射手", "摩羯", "水瓶", "双鱼" } []
  n = "Xiu28" -> { "角", "亢", "氐", "房", "心", "尾", "箕", "斗", "牛", "女", "虚", "危", "室", "壁", "奎", "娄", "胃", "昴", "毕", "觜", "参", "井", "鬼", "柳", "星", "张", "翼", "轸" } []
  n = "ZhiXing12" -> { "建", "除", "满", "平", "定", "执", "破", "危", "成", "收", "开", "闭" } []
  n = "TianShen12" -> { "青龙", "明堂", "天刑", "朱雀", "金匮", "天德", "白虎", "玉堂", "天牢", "玄武", "司命", "勾陈" } []
  n = "TianShenType" -> { "黄道", "黑道" } []
  n = "Luck" -> { "吉", "凶" } []
  n = "Position9" -> { "坎", "坤", "震", "巽", "中", "乾", "兑", "艮", "离" } []
  n = "WuXing5" -> { "金", "木", "水", "火", "土" } []
  n = "WuXingPair" -> { "金金", "金木", "金水", "金火", "金土", "木金", "木木", "木水", "木火", "木土", "水金", "水木", "水水", "水火", "水土", "火金", "火木", "火水", "火火", "火土", "土金", "土木", "土水", "土火", "土土" } []
  n = "Zheng7" -> { "日", "月", "火", "水", "木", "金", "土" } []
  n = "Gong5" -> { "东", "南", "西", "北", "中" } []
  n = "Shou4" -> { "青龙", "朱雀", "白虎", "玄武" } []
  n = "LiuYao6" -> { "先胜", "友引", "先负", "佛灭", "大安", "赤口" } []
  n = "Season12" -> { "孟春", "孟夏", "孟秋", "孟冬", "仲春", "仲夏", "仲秋", "仲冬", "季春", "季夏", "季秋", "季冬" } []
  n = "MonthChinese" -> { "正", "二", "三", "四", "五", "六", "七", "八", "九", "十", "冬", "腊", "闰正", "闰二", "闰三", "闰四", "闰五", "闰六", "闰七", "闰八", "闰九", "闰十", "闰冬", "闰腊" } []
  n = "DayChinese" -> { "初一", "初二", "初三", "初四", "初五", "初六", "初七", "初八", "初九", "初十", "十一", "十二", "十三", "十四", "十五", "十六", "十七", "十八", "十九", "二十", "廿一", "廿二", "廿三", "廿四", "廿五", "廿六", "廿七", "廿八", "廿九", "三十" } []
  n = "ShiShen" -> { "比肩", "劫财", "食神", "伤官", "偏财", "正财", "七杀", "正官", "偏印", "正印", "日主" } []
  n = "ChangSheng12" -> { "长生", "沐浴", "冠带", "临官", "帝旺", "衰", "病", "死", "墓", "绝", "胎", "养" } []
  n = "ShuJiuName" -> { "一九", "二九", "三九", "四九", "五九", "六九", "七九", "八九", "九九" } []
  n = "FuName" -> { "初伏", "中伏", "末伏" } []
  n = "JieQi24" -> { "冬至", "小寒", "大寒", "立春", "雨水", "惊蛰", "春分", "清明", "谷雨", "立夏", "小满", "芒种", "夏至", "小暑", "大暑", "立秋", "处暑", "白露", "秋分", "寒露", "霜降", "立冬", "小雪", "大雪" } []
  n = "StarNumber" -> { "一", "二", "三", "四", "五", "六", "七", "八", "九" } []
  n = "StarColor" -> { "白", "黑", "碧", "绿", "黄", "赤", "紫" } []
  n = "YinYang" -> { "阳", "阴" } []
  n = "QiMenLuck" -> { "大凶", "小凶", "小吉", "大吉" } []
  n = "TaiYiType" -> { "吉神", "凶神", "安神" } []
  n = "Yuan3" -> { "上元", "中元", "下元" } []
  n = "Yun9" -> { "一运", "二运", "三运", "四运", "五运", "六运", "七运", "八运", "九运" } []
  n = "WeekName" -> { "日", "一", "二", "三", "四", "五", "六" }
  [] OTHER -> {}

Known == {
  "DaYun.GetEndAge",
  "DaYun.GetEndYear",
  "DaYun.GetGanZhi",
  "DaYun.GetIndex",
  "DaYun.GetLiuNian",
  "DaYun.GetLunar",
  "DaYun.GetStartAge",
  "DaYun.GetStartYear",
  "DaYun.GetXiaoYun",
  "DaYun.GetXun",
  "DaYun.GetXunKong",
  "EightChar.GetDay",
  "EightChar.GetDayDiShi",
  "EightChar.GetDayGan",
  "EightChar.GetDayGanIndex",
  "EightChar.GetDayHideGan",
  "EightChar.GetDayNaYin",
  "EightChar.GetDayShiShenGan",
  "EightChar.GetDayShiShenZhi",
  "EightChar.GetDayWuXing",
  "EightChar.GetDayXun",
  "EightChar.GetDayXunKong",
  "EightChar.GetDayZhi",
  "EightChar.GetDayZhiIndex",
  "EightChar.GetLunar",
  "EightChar.GetMingGong",
  "EightChar.GetMingGongNaYin",
  "EightChar.GetMonth",
  "EightChar.GetMonthDiShi",
  "EightChar.GetMonthGan",
  "EightChar.GetMonthHideGan",
  "EightChar.GetMonthNaYin",
  "EightChar.GetMonthShiShenGan",
  "EightChar.GetMonthShiShenZhi",
  "EightChar.GetMonthWuXing",
  "EightChar.GetMonthXun",
  "EightChar.GetMonthXunKong",
  "EightChar.GetMonthZhi",
  "EightChar.GetSect",
  "EightChar.GetShenGong",
  "EightChar.GetShenGongNaYin",
  "EightChar.GetTaiXi",
  "EightChar.GetTaiXiNaYin",
  "EightChar.GetTaiYuan",
  "EightChar.GetTaiYuanNaYin",
  "EightChar.GetTime",
  "EightChar.GetTimeDiShi",
  "EightChar.GetTimeGan",
  "EightChar.GetTimeHideGan",
  "EightChar.GetTimeNaYin",
  "EightChar.GetTimeShiShenGan",
  "EightChar.GetTimeShiShenZhi",
  "EightChar.GetTimeWuXing",
  "EightChar.GetTimeXun",
  "EightChar.GetTimeXunKong",
  "EightChar.GetTimeZhi",
  "EightChar.GetYear",
  "EightChar.GetYearDiShi",
  "EightChar.GetYearGan",
  "EightChar.GetYearHideGan",
  "EightChar.GetYearNaYin",
  "EightChar.GetYearShiShenGan",
  "EightChar.GetYearShiShenZhi",
  "EightChar.GetYearWuXing",
  "EightChar.GetYearXun",
  "EightChar.GetYearXunKong",
  "EightChar.GetYearZhi",
  "EightChar.String",
  "Foto.GetAnimal",
  "Foto.GetDay",
  "Foto.GetDayInChinese",
  "Foto.GetFestivals",
  "Foto.GetGong",
  "Foto.GetLunar",
  "Foto.GetMonth",
  "Foto.GetMonthInChinese",
  "Foto.GetOtherFestivals",
  "Foto.GetShou",
  "Foto.GetXiu",
  "Foto.GetXiuLuck",
  "Foto.GetXiuSong",
  "Foto.GetYear",
  "Foto.GetYearInChinese",
  "Foto.GetZheng",
  "Foto.IsDayYangGong",
  "Foto.IsDayZhaiGuanYin",
  "Foto.IsDayZhaiShuoWang",
  "Foto.IsDayZhaiSix",
  "Foto.IsDayZhaiTen",
  "Foto.IsMonthZhai",
  "Foto.String",
  "Foto.ToFullString",
  "Foto.ToString",
  "FotoFestival.GetName",
  "FotoFestival.GetRemark",
  "FotoFestival.GetResult",
  "FotoFestival.IsEveryMonth",
  "FotoFestival.String",
  "FotoFestival.ToFullString",
  "FotoFestival.ToString",
  "Fu.GetIndex",
  "Fu.GetName",
  "Fu.String",
  "Fu.ToFullString",
  "Fu.ToString",
  "Holiday.GetDay",
  "Holiday.GetName",
  "Holiday.GetTarget",
  "Holiday.IsWork",
  "Holiday.String",
  "JieQi.GetName",
  "JieQi.GetSolar",
  "JieQi.IsJie",
  "JieQi.IsQi",
  "JieQi.String",
  "LiuNian.GetAge",
  "LiuNian.GetGanZhi",
  "LiuNian.GetIndex",
  "LiuNian.GetLiuYue",
  "LiuNian.GetXun",
  "LiuNian.GetXunKong",
  "LiuNian.GetYear",
  "Lunar.GetAnimal",
  "Lunar.GetBaZi",
  "Lunar.GetBaZiNaYin",
  "Lunar.GetBaZiShiShenDayZhi",
  "Lunar.GetBaZiShiShenGan",
  "Lunar.GetBaZiShiShenMonthZhi",
  "Lunar.GetBaZiShiShenTimeZhi",
  "Lunar.GetBaZiShiShenYearZhi",
  "Lunar.GetBaZiShiShenZhi",
  "Lunar.GetBaZiWuXing",
  "Lunar.GetChong",
  "Lunar.GetChongDesc",
  "Lunar.GetChongGan",
  "Lunar.GetChongGanTie",
  "Lunar.GetChongShengXiao",
  "Lunar.GetCurrentJie",
  "Lunar.GetCurrentJieQi",
  "Lunar.GetCurrentQi",
  "Lunar.GetDay",
  "Lunar.GetDayChong",
  "Lunar.GetDayChongDesc",
  "Lunar.GetDayChongGan",
  "Lunar.GetDayChongGanTie",
  "Lunar.GetDayChongShengXiao",
  "Lunar.GetDayGan",
  "Lunar.GetDayGanExact",
  "Lunar.GetDayGanExact2",
  "Lunar.GetDayGanIndex",
  "Lunar.GetDayGanIndexExact",
  "Lunar.GetDayGanIndexExact2",
  "Lunar.GetDayInChinese",
  "Lunar.GetDayInGanZhi",
  "Lunar.GetDayInGanZhiExact",
  "Lunar.GetDayInGanZhiExact2",
  "Lunar.GetDayJi",
  "Lunar.GetDayJiShen",
  "Lunar.GetDayLu",
  "Lunar.GetDayNaYin",
  "Lunar.GetDayNineStar",
  "Lunar.GetDayPositionCai",
  "Lunar.GetDayPositionCaiDesc",
  "Lunar.GetDayPositionFu",
  "Lunar.GetDayPositionFuDesc",
  "Lunar.GetDayPositionTai",
  "Lunar.GetDayPositionTaiSui",
  "Lunar.GetDayPositionTaiSuiDesc",
  "Lunar.GetDayPositionXi",
  "Lunar.GetDayPositionXiDesc",
  "Lunar.GetDayPositionYangGui",
  "Lunar.GetDayPositionYangGuiDesc",
  "Lunar.GetDayPositionYinGui",
  "Lunar.GetDayPositionYinGuiDesc",
  "Lunar.GetDaySha",
  "Lunar.GetDayShengXiao",
  "Lunar.GetDayTianShen",
  "Lunar.GetDayTianShenLuck",
  "Lunar.GetDayTianShenType",
  "Lunar.GetDayXiongSha",
  "Lunar.GetDayXun",
  "Lunar.GetDayXunExact",
  "Lunar.GetDayXunExact2",
  "Lunar.GetDayXunKong",
  "Lunar.GetDayXunKongExact",
  "Lunar.GetDayXunKongExact2",
  "Lunar.GetDayYi",
  "Lunar.GetDayZhi",
  "Lunar.GetDayZhiExact",
  "Lunar.GetDayZhiExact2",
  "Lunar.GetDayZhiIndex",
  "Lunar.GetDayZhiIndexExact",
  "Lunar.GetDayZhiIndexExact2",
  "Lunar.GetEightChar",
  "Lunar.GetFestivals",
  "Lunar.GetFoto",
  "Lunar.GetFu",
  "Lunar.GetGan",
  "Lunar.GetGong",
  "Lunar.GetHou",
  "Lunar.GetHour",
  "Lunar.GetJie",
  "Lunar.GetJieQi",
  "Lunar.GetJieQiList",
  "Lunar.GetJieQiTable",
  "Lunar.GetLiuYao",
  "Lunar.GetMinute",
  "Lunar.GetMonth",
  "Lunar.GetMonthGan",
  "Lunar.GetMonthGanExact",
  "Lunar.GetMonthGanIndex",
  "Lunar.GetMonthGanIndexExact",
  "Lunar.GetMonthInChinese",
  "Lunar.GetMonthInGanZhi",
  "Lunar.GetMonthInGanZhiExact",
  "Lunar.GetMonthNaYin",
  "Lunar.GetMonthNineStar",
  "Lunar.GetMonthPositionTai",
  "Lunar.GetMonthPositionTaiSui",
  "Lunar.GetMonthPositionTaiSuiDesc",
  "Lunar.GetMonthShengXiao",
  "Lunar.GetMonthXun",
  "Lunar.GetMonthXunExact",
  "Lunar.GetMonthXunKong",
  "Lunar.GetMonthXunKongExact",
  "Lunar.GetMonthZhi",
  "Lunar.GetMonthZhiExact",
  "Lunar.GetMonthZhiIndex",
  "Lunar.GetMonthZhiIndexExact",
  "Lunar.GetNextJie",
  "Lunar.GetNextJieQi",
  "Lunar.GetNextQi",
  "Lunar.GetOtherFestivals",
  "Lunar.GetPengZuGan",
  "Lunar.GetPengZuZhi",
  "Lunar.GetPositionCai",
  "Lunar.GetPositionCaiDesc",
  "Lunar.GetPositionFu",
  "Lunar.GetPositionFuDesc",
  "Lunar.GetPositionXi",
  "Lunar.GetPositionXiDesc",
  "Lunar.GetPositionYangGui",
  "Lunar.GetPositionYangGuiDesc",
  "Lunar.GetPositionYinGui",
  "Lunar.GetPositionYinGuiDesc",
  "Lunar.GetPrevJie",
  "Lunar.GetPrevJieQi",
  "Lunar.GetPrevQi",
  "Lunar.GetQi",
  "Lunar.GetSeason",
  "Lunar.GetSecond",
  "Lunar.GetSha",
  "Lunar.GetShengxiao",
  "Lunar.GetShou",
  "Lunar.GetShuJiu",
  "Lunar.GetSolar",
  "Lunar.GetTao",
  "Lunar.GetTime",
  "Lunar.GetTimeChong",
  "Lunar.GetTimeChongDesc",
  "Lunar.GetTimeChongGan",
  "Lunar.GetTimeChongGanTie",
  "Lunar.GetTimeChongShengXiao",
  "Lunar.GetTimeGan",
  "Lunar.GetTimeGanIndex",
  "Lunar.GetTimeInGanZhi",
  "Lunar.GetTimeJi",
  "Lunar.GetTimeNaYin",
  "Lunar.GetTimeNineStar",
  "Lunar.GetTimePositionCai",
  "Lunar.GetTimePositionCaiDesc",
  "Lunar.GetTimePositionFu",
  "Lunar.GetTimePositionFuDesc",
  "Lunar.GetTimePositionXi",
  "Lunar.GetTimePositionXiDesc",
  "Lunar.GetTimePositionYangGui",
  "Lunar.GetTimePositionYangGuiDesc",
  "Lunar.GetTimePositionYinGui",
  "Lunar.GetTimePositionYinGuiDesc",
  "Lunar.GetTimeSha",
  "Lunar.GetTimeShengXiao",
  "Lunar.GetTimeTianShen",
  "Lunar.GetTimeTianShenLuck",
  "Lunar.GetTimeTianShenType",
  "Lunar.GetTimeXun",
  "Lunar.GetTimeXunKong",
  "Lunar.GetTimeYi",
  "Lunar.GetTimeZhi",
  "Lunar.GetTimeZhiIndex",
  "Lunar.GetTimes",
  "Lunar.GetWeek",
  "Lunar.GetWeekInChinese",
  "Lunar.GetWuHou",
  "Lunar.GetXiu",
  "Lunar.GetXiuLuck",
  "Lunar.GetXiuSong",
  "Lunar.GetYear",
  "Lunar.GetYearGan",
  "Lunar.GetYearGanByLiChun",
  "Lunar.GetYearGanExact",
  "Lunar.GetYearGanIndex",
  "Lunar.GetYearGanIndexByLiChun",
  "Lunar.GetYearGanIndexExact",
  "Lunar.GetYearInChinese",
  "Lunar.GetYearInGanZhi",
  "Lunar.GetYearInGanZhiByLiChun",
  "Lunar.GetYearInGanZhiExact",
  "Lunar.GetYearNaYin",
  "Lunar.GetYearNineStar",
  "Lunar.GetYearPositionTaiSui",
  "Lunar.GetYearPositionTaiSuiDesc",
  "Lunar.GetYearShengXiao",
  "Lunar.GetYearShengXiaoByLiChun",
  "Lunar.GetYearShengXiaoExact",
  "Lunar.GetYearXun",
  "Lunar.GetYearXunByLiChun",
  "Lunar.GetYearXunExact",
  "Lunar.GetYearXunKong",
  "Lunar.GetYearXunKongByLiChun",
  "Lunar.GetYearXunKongExact",
  "Lunar.GetYearZhi",
  "Lunar.GetYearZhiByLiChun",
  "Lunar.GetYearZhiExact",
  "Lunar.GetYearZhiIndex",
  "Lunar.GetYearZhiIndexByLiChun",
  "Lunar.GetYearZhiIndexExact",
  "Lunar.GetYueXiang",
  "Lunar.GetZheng",
  "Lunar.GetZhi",
  "Lunar.GetZhiXing",
  "Lunar.String",
  "Lunar.ToFullString",
  "LunarMonth.GetDayCount",
  "LunarMonth.GetFirstJulianDay",
  "LunarMonth.GetGan",
  "LunarMonth.GetGanIndex",
  "LunarMonth.GetGanZhi",
  "LunarMonth.GetIndex",
  "LunarMonth.GetMonth",
  "LunarMonth.GetNineStar",
  "LunarMonth.GetPositionCai",
  "LunarMonth.GetPositionCaiDesc",
  "LunarMonth.GetPositionFu",
  "LunarMonth.GetPositionFuDesc",
  "LunarMonth.GetPositionTaiSui",
  "LunarMonth.GetPositionTaiSuiDesc",
  "LunarMonth.GetPositionXi",
  "LunarMonth.GetPositionXiDesc",
  "LunarMonth.GetPositionYangGui",
  "LunarMonth.GetPositionYangGuiDesc",
  "LunarMonth.GetPositionYinGui",
  "LunarMonth.GetPositionYinGuiDesc",
  "LunarMonth.GetYear",
  "LunarMonth.GetZhi",
  "LunarMonth.GetZhiIndex",
  "LunarMonth.IsLeap",
  "LunarMonth.String",
  "LunarTime.GetChong",
  "LunarTime.GetChongDesc",
  "LunarTime.GetChongGan",
  "LunarTime.GetChongGanTie",
  "LunarTime.GetChongShengXiao",
  "LunarTime.GetGan",
  "LunarTime.GetGanIndex",
  "LunarTime.GetGanZhi",
  "LunarTime.GetJi",
  "LunarTime.GetMaxHm",
  "LunarTime.GetMinHm",
  "LunarTime.GetNaYin",
  "LunarTime.GetNineStar",
  "LunarTime.GetPositionCai",
  "LunarTime.GetPositionCaiDesc",
  "LunarTime.GetPositionFu",
  "LunarTime.GetPositionFuDesc",
  "LunarTime.GetPositionXi",
  "LunarTime.GetPositionXiDesc",
  "LunarTime.GetPositionYangGui",
  "LunarTime.GetPositionYangGuiDesc",
  "LunarTime.GetPositionYinGui",
  "LunarTime.GetPositionYinGuiDesc",
  "LunarTime.GetSha",
  "LunarTime.GetShengXiao",
  "LunarTime.GetTianShen",
  "LunarTime.GetTianShenLuck",
  "LunarTime.GetTianShenType",
  "LunarTime.GetXun",
  "LunarTime.GetXunKong",
  "LunarTime.GetYi",
  "LunarTime.GetZhi",
  "LunarTime.GetZhiIndex",
  "LunarTime.String",
  "LunarTime.ToString",
  "LunarYear.GetCaoZi",
  "LunarYear.GetDayCount",
  "LunarYear.GetDeJin",
  "LunarYear.GetFenBing",
  "LunarYear.GetGan",
  "LunarYear.GetGanIndex",
  "LunarYear.GetGanZhi",
  "LunarYear.GetGengTian",
  "LunarYear.GetGongZhu",
  "LunarYear.GetHuaShou",
  "LunarYear.GetJiaTian",
  "LunarYear.GetJieQiJulianDays",
  "LunarYear.GetKanCan",
  "LunarYear.GetLeapMonth",
  "LunarYear.GetMonths",
  "LunarYear.GetMonthsInYear",
  "LunarYear.GetNineStar",
  "LunarYear.GetPositionCai",
  "LunarYear.GetPositionCaiDesc",
  "LunarYear.GetPositionFu",
  "LunarYear.GetPositionFuDesc",
  "LunarYear.GetPositionTaiSui",
  "LunarYear.GetPositionTaiSuiDesc",
  "LunarYear.GetPositionXi",
  "LunarYear.GetPositionXiDesc",
  "LunarYear.GetPositionYangGui",
  "LunarYear.GetPositionYangGuiDesc",
  "LunarYear.GetPositionYinGui",
  "LunarYear.GetPositionYinGuiDesc",
  "LunarYear.GetQiangMi",
  "LunarYear.GetRenBing",
  "LunarYear.GetRenChu",
  "LunarYear.GetTouLiang",
  "LunarYear.GetTuoGu",
  "LunarYear.GetYear",
  "LunarYear.GetYuan",
  "LunarYear.GetYun",
  "LunarYear.GetZhi",
  "LunarYear.GetZhiIndex",
  "LunarYear.GetZhiShui",
  "LunarYear.String",
  "LunarYear.ToFullString",
  "NineStar.GetBaMenInQiMen",
  "NineStar.GetColor",
  "NineStar.GetIndex",
  "NineStar.GetLuckInQiMen",
  "NineStar.GetLuckInXuanKong",
  "NineStar.GetNameInBeiDou",
  "NineStar.GetNameInQiMen",
  "NineStar.GetNameInTaiYi",
  "NineStar.GetNameInXuanKong",
  "NineStar.GetNumber",
  "NineStar.GetPosition",
  "NineStar.GetPositionDesc",
  "NineStar.GetSongInTaiYi",
  "NineStar.GetTypeInTaiYi",
  "NineStar.GetWuXing",
  "NineStar.GetYinYangInQiMen",
  "NineStar.String",
  "NineStar.ToFullString",
  "ShuJiu.GetIndex",
  "ShuJiu.GetName",
  "ShuJiu.String",
  "ShuJiu.ToFullString",
  "ShuJiu.ToString",
  "Solar.GetDay",
  "Solar.GetFestivals",
  "Solar.GetHour",
  "Solar.GetJulianDay",
  "Solar.GetLunar",
  "Solar.GetMinute",
  "Solar.GetMonth",
  "Solar.GetOtherFestivals",
  "Solar.GetSalaryRate",
  "Solar.GetSecond",
  "Solar.GetWeek",
  "Solar.GetWeekInChinese",
  "Solar.GetXingZuo",
  "Solar.GetXingzuo",
  "Solar.GetYear",
  "Solar.IsLeapYear",
  "Solar.String",
  "Solar.ToFullString",
  "Solar.ToYmd",
  "Solar.ToYmdHms",
  "SolarHalfYear.GetIndex",
  "SolarHalfYear.GetMonth",
  "SolarHalfYear.GetMonths",
  "SolarHalfYear.GetYear",
  "SolarHalfYear.String",
  "SolarHalfYear.ToFullString",
  "SolarMonth.GetDays",
  "SolarMonth.GetMonth",
  "SolarMonth.GetYear",
  "SolarMonth.String",
  "SolarMonth.ToFullString",
  "SolarSeason.GetIndex",
  "SolarSeason.GetMonth",
  "SolarSeason.GetMonths",
  "SolarSeason.GetYear",
  "SolarSeason.String",
  "SolarSeason.ToFullString",
  "SolarWeek.GetDay",
  "SolarWeek.GetDays",
  "SolarWeek.GetDaysInMonth",
  "SolarWeek.GetFirstDay",
  "SolarWeek.GetFirstDayInMonth",
  "SolarWeek.GetIndex",
  "SolarWeek.GetIndexInYear",
  "SolarWeek.GetMonth",
  "SolarWeek.GetYear",
  "SolarWeek.String",
  "SolarWeek.ToFullString",
  "SolarYear.GetMonths",
  "SolarYear.GetYear",
  "SolarYear.String",
  "SolarYear.ToFullString",
  "Tao.GetDay",
  "Tao.GetDayInChinese",
  "Tao.GetFestivals",
  "Tao.GetLunar",
  "Tao.GetMonth",
  "Tao.GetMonthInChinese",
  "Tao.GetYear",
  "Tao.GetYearInChinese",
  "Tao.IsDayAnWu",
  "Tao.IsDayBaHui",
  "Tao.IsDayBaJie",
  "Tao.IsDayMingWu",
  "Tao.IsDaySanHui",
  "Tao.IsDaySanYuan",
  "Tao.IsDayWu",
  "Tao.IsDayWuLa",
  "Tao.String",
  "Tao.ToFullString",
  "Tao.ToString",
  "TaoFestival.GetName",
  "TaoFestival.GetRemark",
  "TaoFestival.String",
  "TaoFestival.ToFullString",
  "TaoFestival.ToString",
  "XiaoYun.GetAge",
  "XiaoYun.GetGanZhi",
  "XiaoYun.GetIndex",
  "XiaoYun.GetXun",
  "XiaoYun.GetXunKong",
  "XiaoYun.GetYear",
  "Yun.GetDaYun",
  "Yun.GetGender",
  "Yun.GetLunar",
  "Yun.GetStartDay",
  "Yun.GetStartHour",
  "Yun.GetStartMonth",
  "Yun.GetStartSolar",
  "Yun.GetStartYear",
  "Yun.IsForward"
}

ContractOf(a) == CASE
  a = "DaYun.GetEndAge" -> [k |-> "int", lo |-> 0, hi |-> 200] []
  a = "DaYun.GetEndYear" -> [k |-> "int", lo |-> -10000, hi |-> 20000] []
  a = "DaYun.GetGanZhi" -> [k |-> "in", set |-> "GanZhi60", opt |-> TRUE] []
  a = "DaYun.GetIndex" -> [k |-> "int", lo |-> 0, hi |-> 9] []
  a = "DaYun.GetLiuNian" -> [k |-> "list", set |-> "", nodup |-> TRUE, nonempty |-> FALSE] []
  a = "DaYun.GetLunar" -> [k |-> "obj"] []
  a = "DaYun.GetStartAge" -> [k |-> "int", lo |-> 1, hi |-> 200] []
  a = "DaYun.GetStartYear" -> [k |-> "int", lo |-> -10000, hi |-> 20000] []
  a = "DaYun.GetXiaoYun" -> [k |-> "list", set |-> "", nodup |-> TRUE, nonempty |-> FALSE] []
  a = "DaYun.GetXun" -> [k |-> "in", set |-> "Xun6", opt |-> TRUE] []
  a = "DaYun.GetXunKong" -> [k |-> "in", set |-> "XunKong6", opt |-> TRUE] []
  a = "EightChar.GetDay" -> [k |-> "in", set |-> "GanZhi60", opt |-> FALSE] []
  a = "EightChar.GetDayDiShi" -> [k |-> "in", set |-> "ChangSheng12", opt |-> FALSE] []
  a = "EightChar.GetDayGan" -> [k |-> "in", set |-> "Gan", opt |-> FALSE] []
  a = "EightChar.GetDayGanIndex" -> [k |-> "int", lo |-> 0, hi |-> 9] []
  a = "EightChar.GetDayHideGan" -> [k |-> "list", set |-> "Gan", nodup |-> TRUE, nonempty |-> TRUE] []
  a = "EightChar.GetDayNaYin" -> [k |-> "str", nonempty |-> TRUE] []
  a = "EightChar.GetDayShiShenGan" -> [k |-> "in", set |-> "ShiShen", opt |-> FALSE] []
  a = "EightChar.GetDayShiShenZhi" -> [k |-> "list", set |-> "ShiShen", nodup |-> TRUE, nonempty |-> TRUE] []
  a = "EightChar.GetDayWuXing" -> [k |-> "in", set |-> "WuXingPair", opt |-> FALSE] []
  a = "EightChar.GetDayXun" -> [k |-> "in", set |-> "GanZhi60", opt |-> FALSE] []
  a = "EightChar.GetDayXunKong" -> [k |-> "in", set |-> "XunKong6", opt |-> FALSE] []
  a = "EightChar.GetDayZhi" -> [k |-> "in", set |-> "Zhi", opt |-> FALSE] []
  a = "EightChar.GetDayZhiIndex" -> [k |-> "int", lo |-> 0, hi |-> 11] []
  a = "EightChar.GetLunar" -> [k |-> "obj"] []
  a = "EightChar.GetMingGong" -> [k |-> "in", set |-> "GanZhi60", opt |-> FALSE] []
  a = "EightChar.GetMingGongNaYin" -> [k |-> "str", nonempty |-> TRUE] []
  a = "EightChar.GetMonth" -> [k |-> "in", set |-> "GanZhi60", opt |-> FALSE] []
  a = "EightChar.GetMonthDiShi" -> [k |-> "in", set |-> "ChangSheng12", opt |-> FALSE] []
  a = "EightChar.GetMonthGan" -> [k |-> "in", set |-> "Gan", opt |-> FALSE] []
  a = "EightChar.GetMonthHideGan" -> [k |-> "list", set |-> "Gan", nodup |-> TRUE, nonempty |-> TRUE] []
  a = "EightChar.GetMonthNaYin" -> [k |-> "str", nonempty |-> TRUE] []
  a = "EightChar.GetMonthShiShenGan" -> [k |-> "in", set |-> "ShiShen", opt |-> FALSE] []
  a = "EightChar.GetMonthShiShenZhi" -> [k |-> "list", set |-> "ShiShen", nodup |-> TRUE, nonempty |-> TRUE] []
  a = "EightChar.GetMonthWuXing" -> [k |-> "in", set |-> "WuXingPair", opt |-> FALSE] []
  a = "EightChar.GetMonthXun" -> [k |-> "in", set |-> "GanZhi60", opt |-> FALSE] []
  a = "EightChar.GetMonthXunKong" -> [k |-> "in", set |-> "XunKong6", opt |-> FALSE] []
  a = "EightChar.GetMonthZhi" -> [k |-> "in", set |-> "Zhi", opt |-> FALSE] []
  a = "EightChar.GetSect" -> [k |-> "int", lo |-> 1, hi |-> 2] []
  a = "EightChar.GetShenGong" -> [k |-> "in", set |-> "GanZhi60", opt |-> FALSE] []
  a = "EightChar.GetShenGongNaYin" -> [k |-> "str", nonempty |-> TRUE] []
  a = "EightChar.GetTaiXi" -> [k |-> "in", set |-> "GanZhi60", opt |-> FALSE] []
  a = "EightChar.GetTaiXiNaYin" -> [k |-> "str", nonempty |-> TRUE] []
  a = "EightChar.GetTaiYuan" -> [k |-> "in", set |-> "GanZhi60", opt |-> FALSE] []
  a = "EightChar.GetTaiYuanNaYin" -> [k |-> "str", nonempty |-> TRUE] []
  a = "EightChar.GetTime" -> [k |-> "in", set |-> "GanZhi60", opt |-> FALSE] []
  a = "EightChar.GetTimeDiShi" -> [k |-> "in", set |-> "ChangSheng12", opt |-> FALSE] []
  a = "EightChar.GetTimeGan" -> [k |-> "in", set |-> "Gan", opt |-> FALSE] []
  a = "EightChar.GetTimeHideGan" -> [k |-> "list", set |-> "Gan", nodup |-> TRUE, nonempty |-> TRUE] []
  a = "EightChar.GetTimeNaYin" -> [k |-> "str", nonempty |-> TRUE] []
  a = "EightChar.GetTimeShiShenGan" -> [k |-> "in", set |-> "ShiShen", opt |-> FALSE] []
  a = "EightChar.GetTimeShiShenZhi" -> [k |-> "list", set |-> "ShiShen", nodup |-> TRUE, nonempty |-> TRUE] []
  a = "EightChar.GetTimeWuXing" -> [k |-> "in", set |-> "WuXingPair", opt |-> FALSE] []
  a = "EightChar.GetTimeXun" -> [k |-> "in", set |-> "GanZhi60", opt |-> FALSE] []
  a = "EightChar.GetTimeXunKong" -> [k |-> "in", set |-> "XunKong6", opt |-> FALSE] []
  a = "EightChar.GetTimeZhi" -> [k |-> "in", set |-> "Zhi", opt |-> FALSE] []
  a = "EightChar.GetYear" -> [k |-> "in", set |-> "GanZhi60", opt |-> FALSE] []
  a = "EightChar.GetYearDiShi" -> [k |-> "in", set |-> "ChangSheng12", opt |-> FALSE] []
  a = "EightChar.GetYearGan" -> [k |-> "in", set |-> "Gan", opt |-> FALSE] []
  a = "EightChar.GetYearHideGan" -> [k |-> "list", set |-> "Gan", nodup |-> TRUE, nonempty |-> TRUE] []
  a = "EightChar.GetYearNaYin" -> [k |-> "str", nonempty |-> TRUE] []
  a = "EightChar.GetYearShiShenGan" -> [k |-> "in", set |-> "ShiShen", opt |-> FALSE] []
  a = "EightChar.GetYearShiShenZhi" -> [k |-> "list", set |-> "ShiShen", nodup |-> TRUE, nonempty |-> TRUE] []
  a = "EightChar.GetYearWuXing" -> [k |-> "in", set |-> "WuXingPair", opt |-> FALSE] []
  a = "EightChar.GetYearXun" -> [k |-> "in", set |-> "GanZhi60", opt |-> FALSE] []
  a = "EightChar.GetYearXunKong" -> [k |-> "in", set |-> "XunKong6", opt |-> FALSE] []
  a = "EightChar.GetYearZhi" -> [k |-> "in", set |-> "Zhi", opt |-> FALSE] []
  a = "EightChar.String" -> [k |-> "str", nonempty |-> TRUE] []
  a = "Foto.GetAnimal" -> [k |-> "str", nonempty |-> TRUE] []
  a = "Foto.GetDay" -> [k |-> "int", lo |-> 1, hi |-> 30] []
  a = "Foto.GetDayInChinese" -> [k |-> "in", set |-> "DayChinese", opt |-> FALSE] []
  a = "Foto.GetFestivals" -> [k |-> "list", set |-> "", nodup |-> TRUE, nonempty |-> FALSE] []
  a = "Foto.GetGong" -> [k |-> "in", set |-> "Gong5", opt |-> FALSE] []
  a = "Foto.GetLunar" -> [k |-> "obj"] []
  a = "Foto.GetMonth" -> [k |-> "int", lo |-> -12, hi |-> 12] []
  a = "Foto.GetMonthInChinese" -> [k |-> "in", set |-> "MonthChinese", opt |-> FALSE] []
  a = "Foto.GetOtherFestivals" -> [k |-> "list", set |-> "", nodup |-> TRUE, nonempty |-> FALSE] []
  a = "Foto.GetShou" -> [k |-> "in", set |-> "TianShen12", opt |-> FALSE] []
  a = "Foto.GetXiu" -> [k |-> "in", set |-> "Xiu28", opt |-> FALSE] []
  a = "Foto.GetXiuLuck" -> [k |-> "in", set |-> "Luck", opt |-> FALSE] []
  a = "Foto.GetXiuSong" -> [k |-> "str", nonempty |-> TRUE] []
  a = "Foto.GetYear" -> [k |-> "int", lo |-> -10000, hi |-> 20000] []
  a = "Foto.GetYearInChinese" -> [k |-> "str", nonempty |-> TRUE] []
  a = "Foto.GetZheng" -> [k |-> "in", set |-> "Zheng7", opt |-> FALSE] []
  a = "Foto.IsDayYangGong" -> [k |-> "bool"] []
  a = "Foto.IsDayZhaiGuanYin" -> [k |-> "bool"] []
  a = "Foto.IsDayZhaiShuoWang" -> [k |-> "bool"] []
  a = "Foto.IsDayZhaiSix" -> [k |-> "bool"] []
  a = "Foto.IsDayZhaiTen" -> [k |-> "bool"] []
  a = "Foto.IsMonthZhai" -> [k |-> "bool"] []
  a = "Foto.String" -> [k |-> "str", nonempty |-> TRUE] []
  a = "Foto.ToFullString" -> [k |-> "str", nonempty |-> TRUE] []
  a = "Foto.ToString" -> [k |-> "str", nonempty |-> TRUE] []
  a = "FotoFestival.GetName" -> [k |-> "str", nonempty |-> TRUE] []
  a = "FotoFestival.GetRemark" -> [k |-> "str", nonempty |-> FALSE] []
  a = "FotoFestival.GetResult" -> [k |-> "str", nonempty |-> FALSE] []
  a = "FotoFestival.IsEveryMonth" -> [k |-> "bool"] []
  a = "FotoFestival.String" -> [k |-> "str", nonempty |-> TRUE] []
  a = "FotoFestival.ToFullString" -> [k |-> "str", nonempty |-> TRUE] []
  a = "FotoFestival.ToString" -> [k |-> "str", nonempty |-> TRUE] []
  a = "Fu.GetIndex" -> [k |-> "int", lo |-> 1, hi |-> 20] []
  a = "Fu.GetName" -> [k |-> "in", set |-> "FuName", opt |-> FALSE] []
  a = "Fu.String" -> [k |-> "in", set |-> "FuName", opt |-> FALSE] []
  a = "Fu.ToFullString" -> [k |-> "str", nonempty |-> TRUE] []
  a = "Fu.ToString" -> [k |-> "in", set |-> "FuName", opt |-> FALSE] []
  a = "Holiday.GetDay" -> [k |-> "str", nonempty |-> TRUE] []
  a = "Holiday.GetName" -> [k |-> "str", nonempty |-> TRUE] []
  a = "Holiday.GetTarget" -> [k |-> "str", nonempty |-> TRUE] []
  a = "Holiday.IsWork" -> [k |-> "bool"] []
  a = "Holiday.String" -> [k |-> "str", nonempty |-> TRUE] []
  a = "JieQi.GetName" -> [k |-> "in", set |-> "JieQi24", opt |-> FALSE] []
  a = "JieQi.GetSolar" -> [k |-> "obj"] []
  a = "JieQi.IsJie" -> [k |-> "bool"] []
  a = "JieQi.IsQi" -> [k |-> "bool"] []
  a = "JieQi.String" -> [k |-> "in", set |-> "JieQi24", opt |-> FALSE] []
  a = "LiuNian.GetAge" -> [k |-> "int", lo |-> 1, hi |-> 200] []
  a = "LiuNian.GetGanZhi" -> [k |-> "in", set |-> "GanZhi60", opt |-> FALSE] []
  a = "LiuNian.GetIndex" -> [k |-> "int", lo |-> 0, hi |-> 10] []
  a = "LiuNian.GetLiuYue" -> [k |-> "list", set |-> "", nodup |-> TRUE, nonempty |-> TRUE] []
  a = "LiuNian.GetXun" -> [k |-> "in", set |-> "GanZhi60", opt |-> FALSE] []
  a = "LiuNian.GetXunKong" -> [k |-> "in", set |-> "XunKong6", opt |-> FALSE] []
  a = "LiuNian.GetYear" -> [k |-> "int", lo |-> -10000, hi |-> 20000] []
  a = "Lunar.GetAnimal" -> [k |-> "str", nonempty |-> TRUE] []
  a = "Lunar.GetBaZi" -> [k |-> "list", set |-> "GanZhi60", nodup |-> FALSE, nonempty |-> TRUE] []
  a = "Lunar.GetBaZiNaYin" -> [k |-> "list", set |-> "", nodup |-> FALSE, nonempty |-> TRUE] []
  a = "Lunar.GetBaZiShiShenDayZhi" -> [k |-> "list", set |-> "ShiShen", nodup |-> TRUE, nonempty |-> TRUE] []
  a = "Lunar.GetBaZiShiShenGan" -> [k |-> "list", set |-> "ShiShen", nodup |-> FALSE, nonempty |-> TRUE] []
  a = "Lunar.GetBaZiShiShenMonthZhi" -> [k |-> "list", set |-> "ShiShen", nodup |-> TRUE, nonempty |-> TRUE] []
  a = "Lunar.GetBaZiShiShenTimeZhi" -> [k |-> "list", set |-> "ShiShen", nodup |-> TRUE, nonempty |-> TRUE] []
  a = "Lunar.GetBaZiShiShenYearZhi" -> [k |-> "list", set |-> "ShiShen", nodup |-> TRUE, nonempty |-> TRUE] []
  a = "Lunar.GetBaZiShiShenZhi" -> [k |-> "list", set |-> "ShiShen", nodup |-> FALSE, nonempty |-> TRUE] []
  a = "Lunar.GetBaZiWuXing" -> [k |-> "list", set |-> "WuXingPair", nodup |-> FALSE, nonempty |-> TRUE] []
  a = "Lunar.GetChong" -> [k |-> "in", set |-> "Zhi", opt |-> FALSE] []
  a = "Lunar.GetChongDesc" -> [k |-> "str", nonempty |-> TRUE] []
  a = "Lunar.GetChongGan" -> [k |-> "in", set |-> "Gan", opt |-> FALSE] []
  a = "Lunar.GetChongGanTie" -> [k |-> "in", set |-> "Gan", opt |-> FALSE] []
  a = "Lunar.GetChongShengXiao" -> [k |-> "in", set |-> "ShengXiao", opt |-> FALSE] []
  a = "Lunar.GetCurrentJie" -> [k |-> "optobj"] []
  a = "Lunar.GetCurrentJieQi" -> [k |-> "optobj"] []
  a = "Lunar.GetCurrentQi" -> [k |-> "optobj"] []
  a = "Lunar.GetDay" -> [k |-> "int", lo |-> 1, hi |-> 30] []
  a = "Lunar.GetDayChong" -> [k |-> "in", set |-> "Zhi", opt |-> FALSE] []
  a = "Lunar.GetDayChongDesc" -> [k |-> "str", nonempty |-> TRUE] []
  a = "Lunar.GetDayChongGan" -> [k |-> "in", set |-> "Gan", opt |-> FALSE] []
  a = "Lunar.GetDayChongGanTie" -> [k |-> "in", set |-> "Gan", opt |-> FALSE] []
  a = "Lunar.GetDayChongShengXiao" -> [k |-> "in", set |-> "ShengXiao", opt |-> FALSE] []
  a = "Lunar.GetDayGan" -> [k |-> "in", set |-> "Gan", opt |-> FALSE] []
  a = "Lunar.GetDayGanExact" -> [k |-> "in", set |-> "Gan", opt |-> FALSE] []
  a = "Lunar.GetDayGanExact2" -> [k |-> "in", set |-> "Gan", opt |-> FALSE] []
  a = "Lunar.GetDayGanIndex" -> [k |-> "int", lo |-> 0, hi |-> 9] []
  a = "Lunar.GetDayGanIndexExact" -> [k |-> "int", lo |-> 0, hi |-> 9] []
  a = "Lunar.GetDayGanIndexExact2" -> [k |-> "int", lo |-> 0, hi |-> 9] []
  a = "Lunar.GetDayInChinese" -> [k |-> "in", set |-> "DayChinese", opt |-> FALSE] []
  a = "Lunar.GetDayInGanZhi" -> [k |-> "in", set |-> "GanZhi60", opt |-> FALSE] []
  a = "Lunar.GetDayInGanZhiExact" -> [k |-> "in", set |-> "GanZhi60", opt |-> FALSE] []
  a = "Lunar.GetDayInGanZhiExact2" -> [k |-> "in", set |-> "GanZhi60", opt |-> FALSE] []
  a = "Lunar.GetDayJi" -> [k |-> "list", set |-> "", nodup |-> TRUE, nonempty |-> TRUE] []
  a = "Lunar.GetDayJiShen" -> [k |-> "list", set |-> "", nodup |-> TRUE, nonempty |-> TRUE] []
  a = "Lunar.GetDayLu" -> [k |-> "str", nonempty |-> TRUE] []
  a = "Lunar.GetDayNaYin" -> [k |-> "str", nonempty |-> TRUE] []
  a = "Lunar.GetDayNineStar" -> [k |-> "obj"] []
  a = "Lunar.GetDayPositionCai" -> [k |-> "in", set |-> "Position9", opt |-> FALSE] []
  a = "Lunar.GetDayPositionCaiDesc" -> [k |-> "str", nonempty |-> TRUE] []
  a = "Lunar.GetDayPositionFu" -> [k |-> "in", set |-> "Position9", opt |-> FALSE] []
  a = "Lunar.GetDayPositionFuDesc" -> [k |-> "str", nonempty |-> TRUE] []
  a = "Lunar.GetDayPositionTai" -> [k |-> "str", nonempty |-> TRUE] []
  a = "Lunar.GetDayPositionTaiSui" -> [k |-> "in", set |-> "Position9", opt |-> FALSE] []
  a = "Lunar.GetDayPositionTaiSuiDesc" -> [k |-> "str", nonempty |-> TRUE] []
  a = "Lunar.GetDayPositionXi" -> [k |-> "in", set |-> "Position9", opt |-> FALSE] []
  a = "Lunar.GetDayPositionXiDesc" -> [k |-> "str", nonempty |-> TRUE] []
  a = "Lunar.GetDayPositionYangGui" -> [k |-> "in", set |-> "Position9", opt |-> FALSE] []
  a = "Lunar.GetDayPositionYangGuiDesc" -> [k |-> "str", nonempty |-> TRUE] []
  a = "Lunar.GetDayPositionYinGui" -> [k |-> "in", set |-> "Position9", opt |-> FALSE] []
  a = "Lunar.GetDayPositionYinGuiDesc" -> [k |-> "str", nonempty |-> TRUE] []
  a = "Lunar.GetDaySha" -> [k |-> "in", set |-> "Gong5", opt |-> FALSE] []
  a = "Lunar.GetDayShengXiao" -> [k |-> "in", set |-> "ShengXiao", opt |-> FALSE] []
  a = "Lunar.GetDayTianShen" -> [k |-> "in", set |-> "TianShen12", opt |-> FALSE] []
  a = "Lunar.GetDayTianShenLuck" -> [k |-> "in", set |-> "Luck", opt |-> FALSE] []
  a = "Lunar.GetDayTianShenType" -> [k |-> "in", set |-> "TianShenType", opt |-> FALSE] []
  a = "Lunar.GetDayXiongSha" -> [k |-> "list", set |-> "", nodup |-> TRUE, nonempty |-> TRUE] []
  a = "Lunar.GetDayXun" -> [k |-> "in", set |-> "GanZhi60", opt |-> FALSE] []
  a = "Lunar.GetDayXunExact" -> [k |-> "in", set |-> "GanZhi60", opt |-> FALSE] []
  a = "Lunar.GetDayXunExact2" -> [k |-> "in", set |-> "GanZhi60", opt |-> FALSE] []
  a = "Lunar.GetDayXunKong" -> [k |-> "in", set |-> "XunKong6", opt |-> FALSE] []
  a = "Lunar.GetDayXunKongExact" -> [k |-> "in", set |-> "XunKong6", opt |-> FALSE] []
  a = "Lunar.GetDayXunKongExact2" -> [k |-> "in", set |-> "XunKong6", opt |-> FALSE] []
  a = "Lunar.GetDayYi" -> [k |-> "list", set |-> "", nodup |-> TRUE, nonempty |-> TRUE] []
  a = "Lunar.GetDayZhi" -> [k |-> "in", set |-> "Zhi", opt |-> FALSE] []
  a = "Lunar.GetDayZhiExact" -> [k |-> "in", set |-> "Zhi", opt |-> FALSE] []
  a = "Lunar.GetDayZhiExact2" -> [k |-> "in", set |-> "Zhi", opt |-> FALSE] []
  a = "Lunar.GetDayZhiIndex" -> [k |-> "int", lo |-> 0, hi |-> 11] []
  a = "Lunar.GetDayZhiIndexExact" -> [k |-> "int", lo |-> 0, hi |-> 11] []
  a = "Lunar.GetDayZhiIndexExact2" -> [k |-> "int", lo |-> 0, hi |-> 11] []
  a = "Lunar.GetEightChar" -> [k |-> "obj"] []
  a = "Lunar.GetFestivals" -> [k |-> "list", set |-> "", nodup |-> TRUE, nonempty |-> FALSE] []
  a = "Lunar.GetFoto" -> [k |-> "obj"] []
  a = "Lunar.GetFu" -> [k |-> "optobj"] []
  a = "Lunar.GetGan" -> [k |-> "in", set |-> "Gan", opt |-> FALSE] []
  a = "Lunar.GetGong" -> [k |-> "in", set |-> "Gong5", opt |-> FALSE] []
  a = "Lunar.GetHou" -> [k |-> "str", nonempty |-> TRUE] []
  a = "Lunar.GetHour" -> [k |-> "int", lo |-> 0, hi |-> 23] []
  a = "Lunar.GetJie" -> [k |-> "in", set |-> "JieQi24", opt |-> TRUE] []
  a = "Lunar.GetJieQi" -> [k |-> "in", set |-> "JieQi24", opt |-> TRUE] []
  a = "Lunar.GetJieQiList" -> [k |-> "list", set |-> "", nodup |-> TRUE, nonempty |-> TRUE] []
  a = "Lunar.GetJieQiTable" -> [k |-> "any"] []
  a = "Lunar.GetLiuYao" -> [k |-> "in", set |-> "LiuYao6", opt |-> FALSE] []
  a = "Lunar.GetMinute" -> [k |-> "int", lo |-> 0, hi |-> 59] []
  a = "Lunar.GetMonth" -> [k |-> "int", lo |-> -12, hi |-> 12] []
  a = "Lunar.GetMonthGan" -> [k |-> "in", set |-> "Gan", opt |-> FALSE] []
  a = "Lunar.GetMonthGanExact" -> [k |-> "in", set |-> "Gan", opt |-> FALSE] []
  a = "Lunar.GetMonthGanIndex" -> [k |-> "int", lo |-> 0, hi |-> 9] []
  a = "Lunar.GetMonthGanIndexExact" -> [k |-> "int", lo |-> 0, hi |-> 9] []
  a = "Lunar.GetMonthInChinese" -> [k |-> "in", set |-> "MonthChinese", opt |-> FALSE] []
  a = "Lunar.GetMonthInGanZhi" -> [k |-> "in", set |-> "GanZhi60", opt |-> FALSE] []
  a = "Lunar.GetMonthInGanZhiExact" -> [k |-> "in", set |-> "GanZhi60", opt |-> FALSE] []
  a = "Lunar.GetMonthNaYin" -> [k |-> "str", nonempty |-> TRUE] []
  a = "Lunar.GetMonthNineStar" -> [k |-> "obj"] []
  a = "Lunar.GetMonthPositionTai" -> [k |-> "str", nonempty |-> FALSE] []
  a = "Lunar.GetMonthPositionTaiSui" -> [k |-> "in", set |-> "Position9", opt |-> FALSE] []
  a = "Lunar.GetMonthPositionTaiSuiDesc" -> [k |-> "str", nonempty |-> TRUE] []
  a = "Lunar.GetMonthShengXiao" -> [k |-> "in", set |-> "ShengXiao", opt |-> FALSE] []
  a = "Lunar.GetMonthXun" -> [k |-> "in", set |-> "GanZhi60", opt |-> FALSE] []
  a = "Lunar.GetMonthXunExact" -> [k |-> "in", set |-> "GanZhi60", opt |-> FALSE] []
  a = "Lunar.GetMonthXunKong" -> [k |-> "in", set |-> "XunKong6", opt |-> FALSE] []
  a = "Lunar.GetMonthXunKongExact" -> [k |-> "in", set |-> "XunKong6", opt |-> FALSE] []
  a = "Lunar.GetMonthZhi" -> [k |-> "in", set |-> "Zhi", opt |-> FALSE] []
  a = "Lunar.GetMonthZhiExact" -> [k |-> "in", set |-> "Zhi", opt |-> FALSE] []
  a = "Lunar.GetMonthZhiIndex" -> [k |-> "int", lo |-> 0, hi |-> 11] []
  a = "Lunar.GetMonthZhiIndexExact" -> [k |-> "int", lo |-> 0, hi |-> 11] []
  a = "Lunar.GetNextJie" -> [k |-> "obj"] []
  a = "Lunar.GetNextJieQi" -> [k |-> "obj"] []
  a = "Lunar.GetNextQi" -> [k |-> "obj"] []
  a = "Lunar.GetOtherFestivals" -> [k |-> "list", set |-> "", nodup |-> TRUE, nonempty |-> FALSE] []
  a = "Lunar.GetPengZuGan" -> [k |-> "str", nonempty |-> TRUE] []
  a = "Lunar.GetPengZuZhi" -> [k |-> "str", nonempty |-> TRUE] []
  a = "Lunar.GetPositionCai" -> [k |-> "in", set |-> "Position9", opt |-> FALSE] []
  a = "Lunar.GetPositionCaiDesc" -> [k |-> "str", nonempty |-> TRUE] []
  a = "Lunar.GetPositionFu" -> [k |-> "in", set |-> "Position9", opt |-> FALSE] []
  a = "Lunar.GetPositionFuDesc" -> [k |-> "str", nonempty |-> TRUE] []
  a = "Lunar.GetPositionXi" -> [k |-> "in", set |-> "Position9", opt |-> FALSE] []
  a = "Lunar.GetPositionXiDesc" -> [k |-> "str", nonempty |-> TRUE] []
  a = "Lunar.GetPositionYangGui" -> [k |-> "in", set |-> "Position9", opt |-> FALSE] []
  a = "Lunar.GetPositionYangGuiDesc" -> [k |-> "str", nonempty |-> TRUE] []
  a = "Lunar.GetPositionYinGui" -> [k |-> "in", set |-> "Position9", opt |-> FALSE] []
  a = "Lunar.GetPositionYinGuiDesc" -> [k |-> "str", nonempty |-> TRUE] []
  a = "Lunar.GetPrevJie" -> [k |-> "obj"] []
  a = "Lunar.GetPrevJieQi" -> [k |-> "obj"] []
  a = "Lunar.GetPrevQi" -> [k |-> "obj"] []
  a = "Lunar.GetQi" -> [k |-> "in", set |-> "JieQi24", opt |-> TRUE] []
  a = "Lunar.GetSeason" -> [k |-> "in", set |-> "Season12", opt |-> FALSE] []
  a = "Lunar.GetSecond" -> [k |-> "int", lo |-> 0, hi |-> 59] []
  a = "Lunar.GetSha" -> [k |-> "in", set |-> "Gong5", opt |-> FALSE] []
  a = "Lunar.GetShengxiao" -> [k |-> "in", set |-> "ShengXiao", opt |-> FALSE] []
  a = "Lunar.GetShou" -> [k |-> "in", set |-> "TianShen12", opt |-> FALSE] []
  a = "Lunar.GetShuJiu" -> [k |-> "optobj"] []
  a = "Lunar.GetSolar" -> [k |-> "obj"] []
  a = "Lunar.GetTao" -> [k |-> "obj"] []
  a = "Lunar.GetTime" -> [k |-> "obj"] []
  a = "Lunar.GetTimeChong" -> [k |-> "in", set |-> "Zhi", opt |-> FALSE] []
  a = "Lunar.GetTimeChongDesc" -> [k |-> "str", nonempty |-> TRUE] []
  a = "Lunar.GetTimeChongGan" -> [k |-> "in", set |-> "Gan", opt |-> FALSE] []
  a = "Lunar.GetTimeChongGanTie" -> [k |-> "in", set |-> "Gan", opt |-> FALSE] []
  a = "Lunar.GetTimeChongShengXiao" -> [k |-> "in", set |-> "ShengXiao", opt |-> FALSE] []
  a = "Lunar.GetTimeGan" -> [k |-> "in", set |-> "Gan", opt |-> FALSE] []
  a = "Lunar.GetTimeGanIndex" -> [k |-> "int", lo |-> 0, hi |-> 9] []
  a = "Lunar.GetTimeInGanZhi" -> [k |-> "in", set |-> "GanZhi60", opt |-> FALSE] []
  a = "Lunar.GetTimeJi" -> [k |-> "list", set |-> "", nodup |-> TRUE, nonempty |-> TRUE] []
  a = "Lunar.GetTimeNaYin" -> [k |-> "str", nonempty |-> TRUE] []
  a = "Lunar.GetTimeNineStar" -> [k |-> "obj"] []
  a = "Lunar.GetTimePositionCai" -> [k |-> "in", set |-> "Position9", opt |-> FALSE] []
  a = "Lunar.GetTimePositionCaiDesc" -> [k |-> "str", nonempty |-> TRUE] []
  a = "Lunar.GetTimePositionFu" -> [k |-> "in", set |-> "Position9", opt |-> FALSE] []
  a = "Lunar.GetTimePositionFuDesc" -> [k |-> "str", nonempty |-> TRUE] []
  a = "Lunar.GetTimePositionXi" -> [k |-> "in", set |-> "Position9", opt |-> FALSE] []
  a = "Lunar.GetTimePositionXiDesc" -> [k |-> "str", nonempty |-> TRUE] []
  a = "Lunar.GetTimePositionYangGui" -> [k |-> "in", set |-> "Position9", opt |-> FALSE] []
  a = "Lunar.GetTimePositionYangGuiDesc" -> [k |-> "str", nonempty |-> TRUE] []
  a = "Lunar.GetTimePositionYinGui" -> [k |-> "in", set |-> "Position9", opt |-> FALSE] []
  a = "Lunar.GetTimePositionYinGuiDesc" -> [k |-> "str", nonempty |-> TRUE] []
  a = "Lunar.GetTimeSha" -> [k |-> "in", set |-> "Gong5", opt |-> FALSE] []
  a = "Lunar.GetTimeShengXiao" -> [k |-> "in", set |-> "ShengXiao", opt |-> FALSE] []
  a = "Lunar.GetTimeTianShen" -> [k |-> "in", set |-> "TianShen12", opt |-> FALSE] []
  a = "Lunar.GetTimeTianShenLuck" -> [k |-> "in", set |-> "Luck", opt |-> FALSE] []
  a = "Lunar.GetTimeTianShenType" -> [k |-> "in", set |-> "TianShenType", opt |-> FALSE] []
  a = "Lunar.GetTimeXun" -> [k |-> "in", set |-> "GanZhi60", opt |-> FALSE] []
  a = "Lunar.GetTimeXunKong" -> [k |-> "in", set |-> "XunKong6", opt |-> FALSE] []
  a = "Lunar.GetTimeYi" -> [k |-> "list", set |-> "", nodup |-> TRUE, nonempty |-> TRUE] []
  a = "Lunar.GetTimeZhi" -> [k |-> "in", set |-> "Zhi", opt |-> FALSE] []
  a = "Lunar.GetTimeZhiIndex" -> [k |-> "int", lo |-> 0, hi |-> 11] []
  a = "Lunar.GetTimes" -> [k |-> "list", set |-> "GanZhi60", nodup |-> TRUE, nonempty |-> TRUE] []
  a = "Lunar.GetWeek" -> [k |-> "int", lo |-> 0, hi |-> 6] []
  a = "Lunar.GetWeekInChinese" -> [k |-> "in", set |-> "WeekName", opt |-> FALSE] []
  a = "Lunar.GetWuHou" -> [k |-> "str", nonempty |-> TRUE] []
  a = "Lunar.GetXiu" -> [k |-> "in", set |-> "Xiu28", opt |-> FALSE] []
  a = "Lunar.GetXiuLuck" -> [k |-> "in", set |-> "Luck", opt |-> FALSE] []
  a = "Lunar.GetXiuSong" -> [k |-> "str", nonempty |-> TRUE] []
  a = "Lunar.GetYear" -> [k |-> "int", lo |-> -10000, hi |-> 20000] []
  a = "Lunar.GetYearGan" -> [k |-> "in", set |-> "Gan", opt |-> FALSE] []
  a = "Lunar.GetYearGanByLiChun" -> [k |-> "in", set |-> "Gan", opt |-> FALSE] []
  a = "Lunar.GetYearGanExact" -> [k |-> "in", set |-> "Gan", opt |-> FALSE] []
  a = "Lunar.GetYearGanIndex" -> [k |-> "int", lo |-> 0, hi |-> 9] []
  a = "Lunar.GetYearGanIndexByLiChun" -> [k |-> "int", lo |-> 0, hi |-> 9] []
  a = "Lunar.GetYearGanIndexExact" -> [k |-> "int", lo |-> 0, hi |-> 9] []
  a = "Lunar.GetYearInChinese" -> [k |-> "str", nonempty |-> TRUE] []
  a = "Lunar.GetYearInGanZhi" -> [k |-> "in", set |-> "GanZhi60", opt |-> FALSE] []
  a = "Lunar.GetYearInGanZhiByLiChun" -> [k |-> "in", set |-> "GanZhi60", opt |-> FALSE] []
  a = "Lunar.GetYearInGanZhiExact" -> [k |-> "in", set |-> "GanZhi60", opt |-> FALSE] []
  a = "Lunar.GetYearNaYin" -> [k |-> "str", nonempty |-> TRUE] []
  a = "Lunar.GetYearNineStar" -> [k |-> "obj"] []
  a = "Lunar.GetYearPositionTaiSui" -> [k |-> "in", set |-> "Position9", opt |-> FALSE] []
  a = "Lunar.GetYearPositionTaiSuiDesc" -> [k |-> "str", nonempty |-> TRUE] []
  a = "Lunar.GetYearShengXiao" -> [k |-> "in", set |-> "ShengXiao", opt |-> FALSE] []
  a = "Lunar.GetYearShengXiaoByLiChun" -> [k |-> "in", set |-> "ShengXiao", opt |-> FALSE] []
  a = "Lunar.GetYearShengXiaoExact" -> [k |-> "in", set |-> "ShengXiao", opt |-> FALSE] []
  a = "Lunar.GetYearXun" -> [k |-> "in", set |-> "GanZhi60", opt |-> FALSE] []
  a = "Lunar.GetYearXunByLiChun" -> [k |-> "in", set |-> "GanZhi60", opt |-> FALSE] []
  a = "Lunar.GetYearXunExact" -> [k |-> "in", set |-> "GanZhi60", opt |-> FALSE] []
  a = "Lunar.GetYearXunKong" -> [k |-> "in", set |-> "XunKong6", opt |-> FALSE] []
  a = "Lunar.GetYearXunKongByLiChun" -> [k |-> "in", set |-> "XunKong6", opt |-> FALSE] []
  a = "Lunar.GetYearXunKongExact" -> [k |-> "in", set |-> "XunKong6", opt |-> FALSE] []
  a = "Lunar.GetYearZhi" -> [k |-> "in", set |-> "Zhi", opt |-> FALSE] []
  a = "Lunar.GetYearZhiByLiChun" -> [k |-> "in", set |-> "Zhi", opt |-> FALSE] []
  a = "Lunar.GetYearZhiExact" -> [k |-> "in", set |-> "Zhi", opt |-> FALSE] []
  a = "Lunar.GetYearZhiIndex" -> [k |-> "int", lo |-> 0, hi |-> 11] []
  a = "Lunar.GetYearZhiIndexByLiChun" -> [k |-> "int", lo |-> 0, hi |-> 11] []
  a = "Lunar.GetYearZhiIndexExact" -> [k |-> "int", lo |-> 0, hi |-> 11] []
  a = "Lunar.GetYueXiang" -> [k |-> "str", nonempty |-> TRUE] []
  a = "Lunar.GetZheng" -> [k |-> "in", set |-> "Zheng7", opt |-> FALSE] []
  a = "Lunar.GetZhi" -> [k |-> "in", set |-> "Zhi", opt |-> FALSE] []
  a = "Lunar.GetZhiXing" -> [k |-> "in", set |-> "ZhiXing12", opt |-> FALSE] []
  a = "Lunar.String" -> [k |-> "str", nonempty |-> TRUE] []
  a = "Lunar.ToFullString" -> [k |-> "str", nonempty |-> TRUE] []
  a = "LunarMonth.GetDayCount" -> [k |-> "int", lo |-> 28, hi |-> 30] []
  a = "LunarMonth.GetFirstJulianDay" -> [k |-> "any"] []
  a = "LunarMonth.GetGan" -> [k |-> "in", set |-> "Gan", opt |-> FALSE] []
  a = "LunarMonth.GetGanIndex" -> [k |-> "int", lo |-> 0, hi |-> 9] []
  a = "LunarMonth.GetGanZhi" -> [k |-> "in", set |-> "GanZhi60", opt |-> FALSE] []
  a = "LunarMonth.GetIndex" -> [k |-> "int", lo |-> 1, hi |-> 15] []
  a = "LunarMonth.GetMonth" -> [k |-> "int", lo |-> -12, hi |-> 12] []
  a = "LunarMonth.GetNineStar" -> [k |-> "obj"] []
  a = "LunarMonth.GetPositionCai" -> [k |-> "in", set |-> "Position9", opt |-> FALSE] []
  a = "LunarMonth.GetPositionCaiDesc" -> [k |-> "str", nonempty |-> TRUE] []
  a = "LunarMonth.GetPositionFu" -> [k |-> "in", set |-> "Position9", opt |-> FALSE] []
  a = "LunarMonth.GetPositionFuDesc" -> [k |-> "str", nonempty |-> TRUE] []
  a = "LunarMonth.GetPositionTaiSui" -> [k |-> "in", set |-> "Position9", opt |-> FALSE] []
  a = "LunarMonth.GetPositionTaiSuiDesc" -> [k |-> "str", nonempty |-> TRUE] []
  a = "LunarMonth.GetPositionXi" -> [k |-> "in", set |-> "Position9", opt |-> FALSE] []
  a = "LunarMonth.GetPositionXiDesc" -> [k |-> "str", nonempty |-> TRUE] []
  a = "LunarMonth.GetPositionYangGui" -> [k |-> "in", set |-> "Position9", opt |-> FALSE] []
  a = "LunarMonth.GetPositionYangGuiDesc" -> [k |-> "str", nonempty |-> TRUE] []
  a = "LunarMonth.GetPositionYinGui" -> [k |-> "in", set |-> "Position9", opt |-> FALSE] []
  a = "LunarMonth.GetPositionYinGuiDesc" -> [k |-> "str", nonempty |-> TRUE] []
  a = "LunarMonth.GetYear" -> [k |-> "int", lo |-> -10000, hi |-> 20000] []
  a = "LunarMonth.GetZhi" -> [k |-> "in", set |-> "Zhi", opt |-> FALSE] []
  a = "LunarMonth.GetZhiIndex" -> [k |-> "int", lo |-> 0, hi |-> 11] []
  a = "LunarMonth.IsLeap" -> [k |-> "bool"] []
  a = "LunarMonth.String" -> [k |-> "str", nonempty |-> TRUE] []
  a = "LunarTime.GetChong" -> [k |-> "in", set |-> "Zhi", opt |-> FALSE] []
  a = "LunarTime.GetChongDesc" -> [k |-> "str", nonempty |-> TRUE] []
  a = "LunarTime.GetChongGan" -> [k |-> "in", set |-> "Gan", opt |-> FALSE] []
  a = "LunarTime.GetChongGanTie" -> [k |-> "in", set |-> "Gan", opt |-> FALSE] []
  a = "LunarTime.GetChongShengXiao" -> [k |-> "in", set |-> "ShengXiao", opt |-> FALSE] []
  a = "LunarTime.GetGan" -> [k |-> "in", set |-> "Gan", opt |-> FALSE] []
  a = "LunarTime.GetGanIndex" -> [k |-> "int", lo |-> 0, hi |-> 9] []
  a = "LunarTime.GetGanZhi" -> [k |-> "in", set |-> "GanZhi60", opt |-> FALSE] []
  a = "LunarTime.GetJi" -> [k |-> "list", set |-> "", nodup |-> TRUE, nonempty |-> TRUE] []
  a = "LunarTime.GetMaxHm" -> [k |-> "str", nonempty |-> TRUE] []
  a = "LunarTime.GetMinHm" -> [k |-> "str", nonempty |-> TRUE] []
  a = "LunarTime.GetNaYin" -> [k |-> "str", nonempty |-> TRUE] []
  a = "LunarTime.GetNineStar" -> [k |-> "obj"] []
  a = "LunarTime.GetPositionCai" -> [k |-> "in", set |-> "Position9", opt |-> FALSE] []
  a = "LunarTime.GetPositionCaiDesc" -> [k |-> "str", nonempty |-> TRUE] []
  a = "LunarTime.GetPositionFu" -> [k |-> "in", set |-> "Position9", opt |-> FALSE] []
  a = "LunarTime.GetPositionFuDesc" -> [k |-> "str", nonempty |-> TRUE] []
  a = "LunarTime.GetPositionXi" -> [k |-> "in", set |-> "Position9", opt |-> FALSE] []
  a = "LunarTime.GetPositionXiDesc" -> [k |-> "str", nonempty |-> TRUE] []
  a = "LunarTime.GetPositionYangGui" -> [k |-> "in", set |-> "Position9", opt |-> FALSE] []
  a = "LunarTime.GetPositionYangGuiDesc" -> [k |-> "str", nonempty |-> TRUE] []
  a = "LunarTime.GetPositionYinGui" -> [k |-> "in", set |-> "Position9", opt |-> FALSE] []
  a = "LunarTime.GetPositionYinGuiDesc" -> [k |-> "str", nonempty |-> TRUE] []
  a = "LunarTime.GetSha" -> [k |-> "in", set |-> "Gong5", opt |-> FALSE] []
  a = "LunarTime.GetShengXiao" -> [k |-> "in", set |-> "ShengXiao", opt |-> FALSE] []
  a = "LunarTime.GetTianShen" -> [k |-> "in", set |-> "TianShen12", opt |-> FALSE] []
  a = "LunarTime.GetTianShenLuck" -> [k |-> "in", set |-> "Luck", opt |-> FALSE] []
  a = "LunarTime.GetTianShenType" -> [k |-> "in", set |-> "TianShenType", opt |-> FALSE] []
  a = "LunarTime.GetXun" -> [k |-> "in", set |-> "GanZhi60", opt |-> FALSE] []
  a = "LunarTime.GetXunKong" -> [k |-> "in", set |-> "XunKong6", opt |-> FALSE] []
  a = "LunarTime.GetYi" -> [k |-> "list", set |-> "", nodup |-> TRUE, nonempty |-> TRUE] []
  a = "LunarTime.GetZhi" -> [k |-> "in", set |-> "Zhi", opt |-> FALSE] []
  a = "LunarTime.GetZhiIndex" -> [k |-> "int", lo |-> 0, hi |-> 11] []
  a = "LunarTime.String" -> [k |-> "in", set |-> "GanZhi60", opt |-> FALSE] []
  a = "LunarTime.ToString" -> [k |-> "in", set |-> "GanZhi60", opt |-> FALSE] []
  a = "LunarYear.GetCaoZi" -> [k |-> "str", nonempty |-> TRUE] []
  a = "LunarYear.GetDayCount" -> [k |-> "int", lo |-> 325, hi |-> 385] []
  a = "LunarYear.GetDeJin" -> [k |-> "str", nonempty |-> TRUE] []
  a = "LunarYear.GetFenBing" -> [k |-> "str", nonempty |-> TRUE] []
  a = "LunarYear.GetGan" -> [k |-> "in", set |-> "Gan", opt |-> FALSE] []
  a = "LunarYear.GetGanIndex" -> [k |-> "int", lo |-> 0, hi |-> 9] []
  a = "LunarYear.GetGanZhi" -> [k |-> "in", set |-> "GanZhi60", opt |-> FALSE] []
  a = "LunarYear.GetGengTian" -> [k |-> "str", nonempty |-> TRUE] []
  a = "LunarYear.GetGongZhu" -> [k |-> "str", nonempty |-> TRUE] []
  a = "LunarYear.GetHuaShou" -> [k |-> "str", nonempty |-> TRUE] []
  a = "LunarYear.GetJiaTian" -> [k |-> "str", nonempty |-> TRUE] []
  a = "LunarYear.GetJieQiJulianDays" -> [k |-> "list", set |-> "", nodup |-> TRUE, nonempty |-> TRUE] []
  a = "LunarYear.GetKanCan" -> [k |-> "str", nonempty |-> TRUE] []
  a = "LunarYear.GetLeapMonth" -> [k |-> "int", lo |-> 0, hi |-> 12] []
  a = "LunarYear.GetMonths" -> [k |-> "list", set |-> "", nodup |-> TRUE, nonempty |-> TRUE] []
  a = "LunarYear.GetMonthsInYear" -> [k |-> "list", set |-> "", nodup |-> TRUE, nonempty |-> TRUE] []
  a = "LunarYear.GetNineStar" -> [k |-> "obj"] []
  a = "LunarYear.GetPositionCai" -> [k |-> "in", set |-> "Position9", opt |-> FALSE] []
  a = "LunarYear.GetPositionCaiDesc" -> [k |-> "str", nonempty |-> TRUE] []
  a = "LunarYear.GetPositionFu" -> [k |-> "in", set |-> "Position9", opt |-> FALSE] []
  a = "LunarYear.GetPositionFuDesc" -> [k |-> "str", nonempty |-> TRUE] []
  a = "LunarYear.GetPositionTaiSui" -> [k |-> "in", set |-> "Position9", opt |-> FALSE] []
  a = "LunarYear.GetPositionTaiSuiDesc" -> [k |-> "str", nonempty |-> TRUE] []
  a = "LunarYear.GetPositionXi" -> [k |-> "in", set |-> "Position9", opt |-> FALSE] []
  a = "LunarYear.GetPositionXiDesc" -> [k |-> "str", nonempty |-> TRUE] []
  a = "LunarYear.GetPositionYangGui" -> [k |-> "in", set |-> "Position9", opt |-> FALSE] []
  a = "LunarYear.GetPositionYangGuiDesc" -> [k |-> "str", nonempty |-> TRUE] []
  a = "LunarYear.GetPositionYinGui" -> [k |-> "in", set |-> "Position9", opt |-> FALSE] []
  a = "LunarYear.GetPositionYinGuiDesc" -> [k |-> "str", nonempty |-> TRUE] []
  a = "LunarYear.GetQiangMi" -> [k |-> "str", nonempty |-> TRUE] []
  a = "LunarYear.GetRenBing" -> [k |-> "str", nonempty |-> TRUE] []
  a = "LunarYear.GetRenChu" -> [k |-> "str", nonempty |-> TRUE] []
  a = "LunarYear.GetTouLiang" -> [k |-> "str", nonempty |-> TRUE] []
  a = "LunarYear.GetTuoGu" -> [k |-> "str", nonempty |-> TRUE] []
  a = "LunarYear.GetYear" -> [k |-> "int", lo |-> -10000, hi |-> 20000] []
  a = "LunarYear.GetYuan" -> [k |-> "in", set |-> "Yuan3", opt |-> FALSE] []
  a = "LunarYear.GetYun" -> [k |-> "in", set |-> "Yun9", opt |-> FALSE] []
  a = "LunarYear.GetZhi" -> [k |-> "in", set |-> "Zhi", opt |-> FALSE] []
  a = "LunarYear.GetZhiIndex" -> [k |-> "int", lo |-> 0, hi |-> 11] []
  a = "LunarYear.GetZhiShui" -> [k |-> "str", nonempty |-> TRUE] []
  a = "LunarYear.String" -> [k |-> "str", nonempty |-> TRUE] []
  a = "LunarYear.ToFullString" -> [k |-> "str", nonempty |-> TRUE] []
  a = "NineStar.GetBaMenInQiMen" -> [k |-> "str", nonempty |-> FALSE] []
  a = "NineStar.GetColor" -> [k |-> "in", set |-> "StarColor", opt |-> FALSE] []
  a = "NineStar.GetIndex" -> [k |-> "int", lo |-> 0, hi |-> 8] []
  a = "NineStar.GetLuckInQiMen" -> [k |-> "in", set |-> "QiMenLuck", opt |-> FALSE] []
  a = "NineStar.GetLuckInXuanKong" -> [k |-> "in", set |-> "Luck", opt |-> FALSE] []
  a = "NineStar.GetNameInBeiDou" -> [k |-> "str", nonempty |-> TRUE] []
  a = "NineStar.GetNameInQiMen" -> [k |-> "str", nonempty |-> TRUE] []
  a = "NineStar.GetNameInTaiYi" -> [k |-> "str", nonempty |-> TRUE] []
  a = "NineStar.GetNameInXuanKong" -> [k |-> "str", nonempty |-> TRUE] []
  a = "NineStar.GetNumber" -> [k |-> "in", set |-> "StarNumber", opt |-> FALSE] []
  a = "NineStar.GetPosition" -> [k |-> "in", set |-> "Position9", opt |-> FALSE] []
  a = "NineStar.GetPositionDesc" -> [k |-> "str", nonempty |-> TRUE] []
  a = "NineStar.GetSongInTaiYi" -> [k |-> "str", nonempty |-> TRUE] []
  a = "NineStar.GetTypeInTaiYi" -> [k |-> "in", set |-> "TaiYiType", opt |-> FALSE] []
  a = "NineStar.GetWuXing" -> [k |-> "in", set |-> "WuXing5", opt |-> FALSE] []
  a = "NineStar.GetYinYangInQiMen" -> [k |-> "in", set |-> "YinYang", opt |-> FALSE] []
  a = "NineStar.String" -> [k |-> "str", nonempty |-> TRUE] []
  a = "NineStar.ToFullString" -> [k |-> "str", nonempty |-> TRUE] []
  a = "ShuJiu.GetIndex" -> [k |-> "int", lo |-> 1, hi |-> 9] []
  a = "ShuJiu.GetName" -> [k |-> "in", set |-> "ShuJiuName", opt |-> FALSE] []
  a = "ShuJiu.String" -> [k |-> "in", set |-> "ShuJiuName", opt |-> FALSE] []
  a = "ShuJiu.ToFullString" -> [k |-> "str", nonempty |-> TRUE] []
  a = "ShuJiu.ToString" -> [k |-> "in", set |-> "ShuJiuName", opt |-> FALSE] []
  a = "Solar.GetDay" -> [k |-> "int", lo |-> 1, hi |-> 31] []
  a = "Solar.GetFestivals" -> [k |-> "list", set |-> "", nodup |-> TRUE, nonempty |-> FALSE] []
  a = "Solar.GetHour" -> [k |-> "int", lo |-> 0, hi |-> 23] []
  a = "Solar.GetJulianDay" -> [k |-> "any"] []
  a = "Solar.GetLunar" -> [k |-> "obj"] []
  a = "Solar.GetMinute" -> [k |-> "int", lo |-> 0, hi |-> 59] []
  a = "Solar.GetMonth" -> [k |-> "int", lo |-> -12, hi |-> 12] []
  a = "Solar.GetOtherFestivals" -> [k |-> "list", set |-> "", nodup |-> TRUE, nonempty |-> FALSE] []
  a = "Solar.GetSalaryRate" -> [k |-> "int", lo |-> 1, hi |-> 3] []
  a = "Solar.GetSecond" -> [k |-> "int", lo |-> 0, hi |-> 59] []
  a = "Solar.GetWeek" -> [k |-> "int", lo |-> 0, hi |-> 6] []
  a = "Solar.GetWeekInChinese" -> [k |-> "in", set |-> "WeekName", opt |-> FALSE] []
  a = "Solar.GetXingZuo" -> [k |-> "in", set |-> "XingZuo", opt |-> FALSE] []
  a = "Solar.GetXingzuo" -> [k |-> "in", set |-> "XingZuo", opt |-> FALSE] []
  a = "Solar.GetYear" -> [k |-> "int", lo |-> -10000, hi |-> 20000] []
  a = "Solar.IsLeapYear" -> [k |-> "bool"] []
  a = "Solar.String" -> [k |-> "str", nonempty |-> TRUE] []
  a = "Solar.ToFullString" -> [k |-> "str", nonempty |-> TRUE] []
  a = "Solar.ToYmd" -> [k |-> "str", nonempty |-> TRUE] []
  a = "Solar.ToYmdHms" -> [k |-> "str", nonempty |-> TRUE] []
  a = "SolarHalfYear.GetIndex" -> [k |-> "int", lo |-> 1, hi |-> 2] []
  a = "SolarHalfYear.GetMonth" -> [k |-> "int", lo |-> -12, hi |-> 12] []
  a = "SolarHalfYear.GetMonths" -> [k |-> "list", set |-> "", nodup |-> TRUE, nonempty |-> TRUE] []
  a = "SolarHalfYear.GetYear" -> [k |-> "int", lo |-> -10000, hi |-> 20000] []
  a = "SolarHalfYear.String" -> [k |-> "str", nonempty |-> TRUE] []
  a = "SolarHalfYear.ToFullString" -> [k |-> "str", nonempty |-> TRUE] []
  a = "SolarMonth.GetDays" -> [k |-> "list", set |-> "", nodup |-> TRUE, nonempty |-> TRUE] []
  a = "SolarMonth.GetMonth" -> [k |-> "int", lo |-> -12, hi |-> 12] []
  a = "SolarMonth.GetYear" -> [k |-> "int", lo |-> -10000, hi |-> 20000] []
  a = "SolarMonth.String" -> [k |-> "str", nonempty |-> TRUE] []
  a = "SolarMonth.ToFullString" -> [k |-> "str", nonempty |-> TRUE] []
  a = "SolarSeason.GetIndex" -> [k |-> "int", lo |-> 1, hi |-> 4] []
  a = "SolarSeason.GetMonth" -> [k |-> "int", lo |-> -12, hi |-> 12] []
  a = "SolarSeason.GetMonths" -> [k |-> "list", set |-> "", nodup |-> TRUE, nonempty |-> TRUE] []
  a = "SolarSeason.GetYear" -> [k |-> "int", lo |-> -10000, hi |-> 20000] []
  a = "SolarSeason.String" -> [k |-> "str", nonempty |-> TRUE] []
  a = "SolarSeason.ToFullString" -> [k |-> "str", nonempty |-> TRUE] []
  a = "SolarWeek.GetDay" -> [k |-> "int", lo |-> 1, hi |-> 31] []
  a = "SolarWeek.GetDays" -> [k |-> "list", set |-> "", nodup |-> TRUE, nonempty |-> TRUE] []
  a = "SolarWeek.GetDaysInMonth" -> [k |-> "list", set |-> "", nodup |-> TRUE, nonempty |-> TRUE] []
  a = "SolarWeek.GetFirstDay" -> [k |-> "obj"] []
  a = "SolarWeek.GetFirstDayInMonth" -> [k |-> "obj"] []
  a = "SolarWeek.GetIndex" -> [k |-> "int", lo |-> 1, hi |-> 6] []
  a = "SolarWeek.GetIndexInYear" -> [k |-> "int", lo |-> 1, hi |-> 54] []
  a = "SolarWeek.GetMonth" -> [k |-> "int", lo |-> -12, hi |-> 12] []
  a = "SolarWeek.GetYear" -> [k |-> "int", lo |-> -10000, hi |-> 20000] []
  a = "SolarWeek.String" -> [k |-> "str", nonempty |-> TRUE] []
  a = "SolarWeek.ToFullString" -> [k |-> "str", nonempty |-> TRUE] []
  a = "SolarYear.GetMonths" -> [k |-> "list", set |-> "", nodup |-> TRUE, nonempty |-> TRUE] []
  a = "SolarYear.GetYear" -> [k |-> "int", lo |-> -10000, hi |-> 20000] []
  a = "SolarYear.String" -> [k |-> "str", nonempty |-> TRUE] []
  a = "SolarYear.ToFullString" -> [k |-> "str", nonempty |-> TRUE] []
  a = "Tao.GetDay" -> [k |-> "int", lo |-> 1, hi |-> 30] []
  a = "Tao.GetDayInChinese" -> [k |-> "in", set |-> "DayChinese", opt |-> FALSE] []
  a = "Tao.GetFestivals" -> [k |-> "list", set |-> "", nodup |-> TRUE, nonempty |-> FALSE] []
  a = "Tao.GetLunar" -> [k |-> "obj"] []
  a = "Tao.GetMonth" -> [k |-> "int", lo |-> -12, hi |-> 12] []
  a = "Tao.GetMonthInChinese" -> [k |-> "in", set |-> "MonthChinese", opt |-> FALSE] []
  a = "Tao.GetYear" -> [k |-> "int", lo |-> -10000, hi |-> 20000] []
  a = "Tao.GetYearInChinese" -> [k |-> "str", nonempty |-> TRUE] []
  a = "Tao.IsDayAnWu" -> [k |-> "bool"] []
  a = "Tao.IsDayBaHui" -> [k |-> "bool"] []
  a = "Tao.IsDayBaJie" -> [k |-> "bool"] []
  a = "Tao.IsDayMingWu" -> [k |-> "bool"] []
  a = "Tao.IsDaySanHui" -> [k |-> "bool"] []
  a = "Tao.IsDaySanYuan" -> [k |-> "bool"] []
  a = "Tao.IsDayWu" -> [k |-> "bool"] []
  a = "Tao.IsDayWuLa" -> [k |-> "bool"] []
  a = "Tao.String" -> [k |-> "str", nonempty |-> TRUE] []
  a = "Tao.ToFullString" -> [k |-> "str", nonempty |-> TRUE] []
  a = "Tao.ToString" -> [k |-> "str", nonempty |-> TRUE] []
  a = "TaoFestival.GetName" -> [k |-> "str", nonempty |-> TRUE] []
  a = "TaoFestival.GetRemark" -> [k |-> "str", nonempty |-> FALSE] []
  a = "TaoFestival.String" -> [k |-> "str", nonempty |-> TRUE] []
  a = "TaoFestival.ToFullString" -> [k |-> "str", nonempty |-> TRUE] []
  a = "TaoFestival.ToString" -> [k |-> "str", nonempty |-> TRUE] []
  a = "XiaoYun.GetAge" -> [k |-> "int", lo |-> 1, hi |-> 200] []
  a = "XiaoYun.GetGanZhi" -> [k |-> "in", set |-> "GanZhi60", opt |-> FALSE] []
  a = "XiaoYun.GetIndex" -> [k |-> "int", lo |-> 0, hi |-> 10] []
  a = "XiaoYun.GetXun" -> [k |-> "in", set |-> "GanZhi60", opt |-> FALSE] []
  a = "XiaoYun.GetXunKong" -> [k |-> "in", set |-> "XunKong6", opt |-> FALSE] []
  a = "XiaoYun.GetYear" -> [k |-> "int", lo |-> -10000, hi |-> 20000] []
  a = "Yun.GetDaYun" -> [k |-> "list", set |-> "", nodup |-> TRUE, nonempty |-> TRUE] []
  a = "Yun.GetGender" -> [k |-> "int", lo |-> 0, hi |-> 1] []
  a = "Yun.GetLunar" -> [k |-> "obj"] []
  a = "Yun.GetStartDay" -> [k |-> "int", lo |-> 0, hi |-> 29] []
  a = "Yun.GetStartHour" -> [k |-> "int", lo |-> 0, hi |-> 23] []
  a = "Yun.GetStartMonth" -> [k |-> "int", lo |-> 0, hi |-> 11] []
  a = "Yun.GetStartSolar" -> [k |-> "obj"] []
  a = "Yun.GetStartYear" -> [k |-> "int", lo |-> 0, hi |-> 11] []
  a = "Yun.IsForward" -> [k |-> "bool"]
  [] OTHER -> [k |-> "unclassified"]
=============================================================================
