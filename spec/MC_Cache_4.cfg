SPECIFICATION Spec
CONSTANTS
 Procs <- Procs4
 Years <- YearsV
 BadYears <- NoBad
 CallsPerProc = 2
 LazyEightChar = FALSE
INVARIANTS MutualExclusion HolderIsInCS CacheComplete ResultCorrect NoLockLeak
CHECK_DEADLOCK FALSE
