------------------------------- MODULE Cache -------------------------------
(***************************************************************************)
(* The year cache of lunar-go: one global lock, one cache slot.  Every     *)
(* conversion / constructor goes through NewLunarYear(y):                   *)
(*                                                                         *)
(*   Gate -> Acquire -> (Hit | Miss -> Compute -> Publish) -> Release -> Return *)
(*                                                                         *)
(* One action per critical-section step, named after the verif trace       *)
(* points in calendar/LunarYear.go.  A year in BadYears makes Compute      *)
(* panic; the code has no defer, so the lock is then never released -      *)
(* modelled faithfully as the Panic action.  LazyInit models a getter that *)
(* creates a field of a *shared* object on first use (read-nil, then       *)
(* write, no lock).                                                        *)
(***************************************************************************)
EXTENDS Integers, Sequences, FiniteSets, TLC
CONSTANTS Procs, Years, BadYears, CallsPerProc, LazyEightChar

VARIABLES pc, req, left, result, cache, holder, order, lazy, lazyAcc
vars == << pc, req, left, result, cache, holder, order, lazy, lazyAcc >>
\* order: history of lock acquisitions (process ids), used to export schedules
NoYear == 0
TableOf(y) == y          \* the content of a year is abstracted to the year itself

Init == /\ pc = [p \in Procs |-> "idle"]
        /\ req = [p \in Procs |-> NoYear]
        /\ left = [p \in Procs |-> CallsPerProc]
        /\ result = [p \in Procs |-> NoYear]
        /\ cache = NoYear /\ holder = 0 /\ order = << >>
        /\ lazy = "nil" /\ lazyAcc = [p \in Procs |-> "none"]

Gate(p, y) == /\ pc[p] = "idle" /\ left[p] > 0
              /\ pc' = [pc EXCEPT ![p] = "want"] /\ req' = [req EXCEPT ![p] = y]
              /\ UNCHANGED << left, result, cache, holder, order, lazy, lazyAcc >>
Acquire(p) == /\ pc[p] = "want" /\ holder = 0
              /\ holder' = p /\ pc' = [pc EXCEPT ![p] = "locked"] /\ order' = Append(order, p)
              /\ UNCHANGED << req, left, result, cache, lazy, lazyAcc >>
Hit(p) == /\ pc[p] = "locked" /\ cache = req[p]
          /\ result' = [result EXCEPT ![p] = TableOf(cache)] /\ pc' = [pc EXCEPT ![p] = "release"]
          /\ UNCHANGED << req, left, cache, holder, order, lazy, lazyAcc >>
Miss(p) == /\ pc[p] = "locked" /\ cache # req[p]
           /\ pc' = [pc EXCEPT ![p] = "computing"]
           /\ UNCHANGED << req, left, result, cache, holder, order, lazy, lazyAcc >>
Compute(p) == /\ pc[p] = "computing" /\ req[p] \notin BadYears
              /\ pc' = [pc EXCEPT ![p] = "computed"]
              /\ UNCHANGED << req, left, result, cache, holder, order, lazy, lazyAcc >>
Panic(p) == /\ pc[p] = "computing" /\ req[p] \in BadYears
            \* the panic unwinds the call without releasing the lock (there is no defer in the code)
            /\ pc' = [pc EXCEPT ![p] = "idle"] /\ left' = [left EXCEPT ![p] = left[p] - 1]
            /\ UNCHANGED << req, result, cache, holder, order, lazy, lazyAcc >>
Publish(p) == /\ pc[p] = "computed"
              /\ cache' = req[p] /\ result' = [result EXCEPT ![p] = TableOf(req[p])]
              /\ pc' = [pc EXCEPT ![p] = "release"]
              /\ UNCHANGED << req, left, holder, order, lazy, lazyAcc >>
Release(p) == /\ pc[p] = "release" /\ holder = p
              /\ holder' = 0 /\ pc' = [pc EXCEPT ![p] = "return"]
              /\ UNCHANGED << req, left, result, cache, order, lazy, lazyAcc >>
Return(p) == /\ pc[p] = "return"
             /\ pc' = [pc EXCEPT ![p] = "idle"] /\ left' = [left EXCEPT ![p] = left[p] - 1]
             /\ UNCHANGED << req, result, cache, holder, order, lazy, lazyAcc >>
\* a getter on a shared object that creates a field lazily, outside any lock
LazyRead(p) == /\ LazyEightChar /\ pc[p] = "idle" /\ lazyAcc[p] = "none"
               /\ lazyAcc' = [lazyAcc EXCEPT ![p] = IF lazy = "nil" THEN "saw-nil" ELSE "done"]
               /\ UNCHANGED << pc, req, left, result, cache, holder, order, lazy >>
LazyWrite(p) == /\ LazyEightChar /\ lazyAcc[p] = "saw-nil"
                /\ lazy' = "set" /\ lazyAcc' = [lazyAcc EXCEPT ![p] = "done"]
                /\ UNCHANGED << pc, req, left, result, cache, holder, order >>
Next == \E p \in Procs : \/ (\E y \in Years : Gate(p, y)) \/ Acquire(p) \/ Hit(p) \/ Miss(p) \/ Compute(p) \/ Panic(p)
                         \/ Publish(p) \/ Release(p) \/ Return(p) \/ LazyRead(p) \/ LazyWrite(p)
Fairness == \A p \in Procs : WF_vars(Acquire(p)) /\ WF_vars(Hit(p)) /\ WF_vars(Miss(p)) /\ WF_vars(Compute(p)) /\ WF_vars(Panic(p))
                             /\ WF_vars(Publish(p)) /\ WF_vars(Release(p)) /\ WF_vars(Return(p))
Spec == Init /\ [][Next]_vars /\ Fairness

InCS(p) == pc[p] \in {"locked", "computing", "computed", "release"}
MutualExclusion == \A p, q \in Procs : (InCS(p) /\ InCS(q)) => p = q
HolderIsInCS == holder # 0 => InCS(holder)
\* the slot never exposes a year whose table is unfinished: it only changes at Publish, after Compute
CacheComplete == cache # NoYear => cache \in Years \ BadYears
\* a returned result is the table of the requested year, whatever happened before
ResultCorrect == \A p \in Procs : pc[p] = "return" => result[p] = TableOf(req[p])
\* when nobody is inside a call the lock is free
NoLockLeak == (\A p \in Procs : pc[p] = "idle") => holder = 0
\* no two processes between a read of nil and the write it causes (that would be a data race on the field)
NoRace == Cardinality({ p \in Procs : lazyAcc[p] = "saw-nil" }) <= 1
\* every call that starts eventually returns (needs the lock never to be leaked)
Progress == \A p \in Procs : (pc[p] = "want") ~> (pc[p] = "idle")
\* behaviour export: completed runs print their acquisition order once
AllDone == \A p \in Procs : pc[p] = "idle" /\ left[p] = 0
EmitOrder == ~AllDone \/ PrintT(<< "EDGE", order >>)
=============================================================================
