SPECIFICATION Spec
CONSTANTS Years <- YearsV
INVARIANTS TotalOutcome FixedPoint RejectKeeps ImageOK
CHECK_DEADLOCK FALSE
