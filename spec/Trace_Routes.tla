----------------------------- MODULE Trace_Routes -----------------------------
(***************************************************************************)
(* Trace specification for C11 (alternative routes agree) and the          *)
(* functional-dependence halves of C11 and C18.  The accessor expressions  *)
(* and their pairing come from Almanac.tla; the driver only evaluates them.*)
(***************************************************************************)
EXTENDS Almanac, Civil, BaZiRules, TraceKit
tvars == << l, rej >>

C11Moment ==
  /\ IsEv("C11Moment")
  /\ LET e == Trace[l]
         k == << e.at, e.sect >>
     IN Consume(
          IF e.p # 0 THEN Chk("C11.moment.panic", k, FALSE)
          ELSE LET v == e.v IN
            Chk("C11.accessor.panic", << e.panics, k >>, Len(e.panics) = 0)
            + SumSeq(SetToSeq(Equiv), LAMBDA q :
                Chk("C11.equiv", << q[1], q[2], k, v[q[1]], v[q[2]] >>, v[q[1]] = v[q[2]]))
            + SumSeq(SetToSeq(SectEquiv), LAMBDA q :
                LET rhs == IF e.sect = 1 THEN q[2] ELSE q[3]
                IN Chk("C11.equiv.by-day-boundary-convention", << q[1], rhs, k, v[q[1]], v[rhs] >>, v[q[1]] = v[rhs]))
            + SumSeq(SetToSeq(BaZiArrays), LAMBDA q :
                Chk("C11.equiv.deprecated-array", << q[1], k, v[q[1]] >>,
                    v[q[1]] = "[" \o v[q[2][1]] \o "," \o v[q[2][2]] \o "," \o v[q[2][3]] \o "," \o v[q[2][4]] \o "]"))
            + (IF Has(e, "bazi") THEN Chk("C11.equiv.reverse-lookup-entry-points", << k, e.bazi >>, e.bazi[1] = e.bazi[2] /\ e.bazi[2] = e.bazi[3]) ELSE 0)
            \* the hour object of the date's own slot taken from the day's list of thirteen = the date's own hour object
            + (IF Has(e, "tms") THEN Chk("C11.equiv.hour-object-from-the-days-list", << k, e.tms >>, e.tms[1] = e.tms[2]) ELSE 0)
            + (IF Has(e, "tms2") THEN Chk("C11.equiv.hour-object-from-the-days-list", << k, "other-side-of-23h", e.tms2 >>, e.tms2[1] = e.tms2[2]) ELSE 0))

\* groups of observations with the same defining inputs: exactly one value
FDGroups ==
  /\ IsEv("FDGroups")
  /\ LET e == Trace[l]
     IN Consume(SumSeq(e.g, LAMBDA g :
                  Chk(e.prop \o ".functional-dependence", << g.attr, g.key, g.vals, g.w >>, Len(g.vals) = 1)))

(***************************************************************************)
(* C18: the classical laws.                                                *)
(***************************************************************************)
XiuSet == { Xiu28[i] : i \in 1..28 }
XiuIdx(name) == CHOOSE i \in 1..28 : Xiu28[i] = name
C18Laws ==
  /\ IsEv("C18Laws")
  /\ LET e == Trace[l]
         R == e.rows
         n == Len(R)
     IN Consume(
          Chk("C18.rows.complete", << e.y, n >>, n >= 355)
          + SumN(n, LAMBDA i :
              LET x == R[i]
                  k == << x[1], x[2], x[3] >>
                  J == JDN(x[1], x[2], x[3])
              IN Chk("C18.xiu.name", << k, x[4] >>, x[4] \in XiuSet)
                 \* 角 (the first mansion) falls on a Thursday; seven mansions per weekday
                 + Chk("C18.xiu.weekday", << k, x[4], x[5] >>, x[4] \in XiuSet => ((XiuIdx(x[4]) - 1) % 7 = (Weekday(J) - 4) % 7 /\ x[5] = Weekday(J) /\ x[12] = Weekday(J)))
                 \* one mansion per day in the fixed order
                 + (IF i < n /\ x[4] \in XiuSet /\ R[i + 1][4] \in XiuSet
                      THEN Chk("C18.xiu.advances", << k, x[4], R[i + 1][4] >>, XiuIdx(R[i + 1][4]) = (XiuIdx(x[4]) % 28) + 1)
                      ELSE 0)
                 \* the duty god is 'establish' when day and month branches coincide and advances with the day branch
                 + Chk("C18.zhiXing", << k, x[6], x[7], x[8] >>, x[8] = ZhiXing[((x[6] - x[7]) % 12) + 1])
                 \* the clash branch is six places away
                 + Chk("C18.chong", << k, x[6], x[9] >>, x[9] = Zhi[((x[6] + 6) % 12) + 1] /\ x[10] = Zhi[((x[11] + 6) % 12) + 1])
                 \* extension: the classical rules behind some of the table-driven attributes
                 + (IF Len(x) < 22 THEN 0 ELSE
                      LET dz == x[6] mz == x[7] g == x[20]
                          \* the Azure Dragon sits on zi in yin/shen months, on yin in mao/you months, ... two branches further per month
                          start == ((mz - 2) % 6) * 2
                          ts == (dz - start) % 12
                          yellow == ts \in {0, 1, 4, 5, 7, 10}
                          am == IF x[18] < 0 THEN -x[18] ELSE x[18]
                      IN Chk("EXT.almanac.heavenly-spirit", << k, mz, dz, x[13], x[14], x[15] >>,
                             x[13] = TianShen[ts + 1] /\ x[14] = (IF yellow THEN "黄道" ELSE "黑道") /\ x[15] = (IF yellow THEN "吉" ELSE "凶"))
                         \* the sha direction faces the three-harmony frame of the day branch: shen-zi-chen south, si-you-chou east, ...
                         + Chk("EXT.almanac.sha-direction", << k, dz, x[16] >>, x[16] = << "南", "东", "北", "西" >>[(dz % 4) + 1])
                         \* the six-day cycle restarts with the lunar month
                         + Chk("EXT.almanac.six-day-cycle", << k, x[18], x[19], x[17] >>,
                               x[17] = << "先胜", "友引", "先负", "佛灭", "大安", "赤口" >>[((am + x[19] - 2) % 6) + 1])
                         \* joy-god direction by the day stem (jia/ji gen, yi/geng qian, bing/xin kun, ding/ren li, wu/gui xun)
                         + Chk("EXT.almanac.joy-god-direction", << k, g, x[21] >>, x[21] = << "艮", "乾", "坤", "离", "巽" >>[(g % 5) + 1])
                         \* the clash stem is the stem of the same polarity that the day stem checks
                         + Chk("EXT.almanac.clash-stem", << k, g, x[22] >>,
                               \E c \in 0..9 : x[22] = Gan[c + 1] /\ Yang(c) = Yang(g) /\ Checks(StemElem(g), StemElem(c))))))
C18NaYin ==
  /\ IsEv("C18NaYin")
  /\ LET e == Trace[l]
     IN Consume(Chk("C18.naYin.table", Len(e.t), Len(e.t) = 60)
                + SumN(Len(e.t), LAMBDA i :
                    LET x == e.t[i]
                    IN Chk("C18.naYin.pair-name", x, x[1] = i - 1 /\ x[2] = GanZhiName(i - 1))
                       + Chk("C18.naYin.element", x, x[4] \in WuXing)
                       \* the two pillars of each pair share one nayin
                       + (IF i % 2 = 1 /\ i < Len(e.t) THEN Chk("C18.naYin.pairs-share", << x, e.t[i + 1] >>, x[3] = e.t[i + 1][3]) ELSE 0)))

(***************************************************************************)
(* BzRules (extension): every derived attribute of every chart seen, keyed *)
(* by the indices of the stems / branches / pairs it is derived from,      *)
(* against BaZiRules.tla.  Also the coverage of the grid is reported: a    *)
(* rule nobody exercised would be vacuous.                                 *)
(***************************************************************************)
BzRules ==
  /\ IsEv("BzRules")
  /\ LET e == Trace[l]
         GZ(g, z) == Gan[g + 1] \o Zhi[z + 1]
         PairIdx(g, z) == CHOOSE k \in 0..59 : k % 10 = g /\ k % 12 = z
     IN Consume(
          SumSeq(e.wx, LAMBDA r : Chk("EXT.bazi.elements", r, r[3] = PillarElems(r[1], r[2])))
          + SumSeq(e.xk, LAMBDA r : Chk("EXT.bazi.xun", r, r[2] = XunOf(r[1]) /\ r[3] = XunKongOf(r[1]))
                                    + Chk("EXT.bazi.nayin", r, r[4] = NaYinOf(r[1])))
          + SumSeq(e.tg, LAMBDA r : Chk("EXT.bazi.ten-god-of-stem", r, r[3] = TenGod(r[1], r[2])))
          + SumSeq(e.ds, LAMBDA r : Chk("EXT.bazi.life-stage", r, r[3] = LifeStage(r[1], r[2])))
          + SumSeq(e.tgz, LAMBDA r : Chk("EXT.bazi.ten-gods-of-branch", r, r[3] = TenGodsOfBranch(r[1], r[2])))
          + SumSeq(e.hg, LAMBDA r : Chk("EXT.bazi.hidden-stems", r, r[2] = HideGanNames(r[1])))
          + SumSeq(e.ty, LAMBDA r : Chk("EXT.bazi.conception-month", r, r[3] = TaiYuan(r[1], r[2])
                                        /\ (\E k \in 0..59 : GanZhiName(k) = r[3] /\ r[4] = NaYinOf(k))))
          + SumSeq(e.tx, LAMBDA r : Chk("EXT.bazi.conception-breath", r, r[3] = TaiXi(r[1], r[2])
                                        /\ (\E k \in 0..59 : GanZhiName(k) = r[3] /\ r[4] = NaYinOf(k))))
          \* coverage of the grid by this run (a rule nobody exercised would be vacuous)
          + Chk("EXT.bazi.coverage", << Len(e.tg), Len(e.ds), Len(e.hg), Len(e.xk) >>,
                Len(e.tg) = 100 /\ Len(e.ds) = 120 /\ Len(e.hg) = 12 /\ Len(e.xk) = 60))

TraceInit == KitInit
TraceNext == C11Moment \/ FDGroups \/ C18Laws \/ C18NaYin \/ BzRules
TraceSpec == TraceInit /\ [][TraceNext]_tvars
=============================================================================
