SPECIFICATION Spec
CONSTANTS MaxDepth = 1
VIEW view
INVARIANTS WeekContains WeekStartsOnStart IndexByCounting WeeksByCounting MonthListOK
PROPERTIES NavLaws
CHECK_DEADLOCK FALSE
