SPECIFICATION Spec
CONSTANTS
 Years <- YearsQ
 Months <- MonthsQ
 Days <- DaysQ
 Times <- TimesQ
 LYears <- LYearsV
INVARIANTS ParseBack LunarParseBack
PROPERTIES OrderLaw
CHECK_DEADLOCK FALSE
