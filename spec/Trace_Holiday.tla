---------------------------- MODULE Trace_Holiday ----------------------------
(***************************************************************************)
(* Trace specification for C14.  The state `hol` is the record set: it is  *)
(* loaded from the library's raw 18-byte records (C14Table), evolves by    *)
(* the specification's own Fix on every C14Fix event (and is compared with *)
(* the raw records observed afterwards), and is what every view, workday   *)
(* step and pay rate is judged against.                                    *)
(***************************************************************************)
EXTENDS Holiday, TraceKit
VARIABLES hol, rest
tvars == << l, rej, hol, rest >>
SeqSet(s) == { s[i] : i \in 1..Len(s) }
R4(x) == << x[1], x[2], x[3], x[4] >>
RecSet(recs) == { R4(recs[i]) : i \in 1..Len(recs) }

C14Table ==
  /\ IsEv("C14Table")
  /\ LET e == Trace[l]
         S == RecSet(e.recs)
     IN /\ Consume(Chk("C14.table.aligned", e.rawlen, e.rawlen = 18 * Len(e.recs))
                   + Chk("C14.table.unique-day", e.tag, Cardinality(S) = Len(e.recs) /\ UniqueDays(S)))
        /\ hol' = S
        /\ rest' = IF Has(e, "rest") THEN e.rest ELSE ""

\* HY: the records of year y (passed as an argument so that the filter is evaluated once per frame)
ViewChecks(HY, e) ==
  LET y == e.y IN
          SumSeq(e.days, LAMBDA x :
            LET exp == ByDay(HY, x[1])
            IN IF x[2] # 0 THEN Chk("C14.byDay.panic", x[1], FALSE)
               ELSE Chk("C14.byDay", << x[1], x[3] >>, IF exp = {} THEN Len(x[3]) = 0 ELSE (Len(x[3]) = 4 /\ R4(x[3]) \in exp))
                    + Chk("C14.byDay.string-form", << x[1], x[4] >>, x[4] = x[3])
                    + Chk("C14.byDay.list", << x[1], x[5] >>, RecSet(x[5]) = exp /\ Len(x[5]) = Cardinality(exp)))
          \* every recorded day of the year is found by day
          + Chk("C14.byDay.complete", << y, { RDay(r) : r \in HY } \ { e.days[i][1] : i \in 1..Len(e.days) } >>,
                { RDay(r) : r \in HY } \subseteq { e.days[i][1] : i \in 1..Len(e.days) })
          + SumSeq(e.months, LAMBDA x :
              IF x[2] # 0 THEN Chk("C14.byMonth.panic", x[1], FALSE)
              ELSE Chk("C14.byMonth", << x[1], Len(x[3]) >>, [i \in 1..Len(x[3]) |-> R4(x[3][i])] = ByMonth(HY, x[1]))
                   + (IF Len(x) >= 5 THEN Chk("C14.byMonth.string-form", << x[1], Len(x[4]), Len(x[5]) >>, x[4] = x[3] /\ x[5] = x[3]) ELSE 0))
          + (IF e.year[1] # 0 THEN Chk("C14.byYear.panic", y, FALSE)
             ELSE Chk("C14.byYear", << y, Len(e.year[2]) >>, [i \in 1..Len(e.year[2]) |-> R4(e.year[2][i])] = ByYear(HY, y))
                  + (IF Len(e.year) >= 3 THEN Chk("C14.byYear.string-form", << y, Len(e.year[3]) >>, e.year[3] = e.year[2]) ELSE 0))
C14Views ==
  /\ IsEv("C14Views")
  /\ LET e == Trace[l] IN Consume(ViewChecks({ r \in hol : RDay(r) \div 10000 = e.y }, e))
  /\ UNCHANGED << hol, rest >>

C14Targets ==
  /\ IsEv("C14Targets")
  /\ LET e == Trace[l]
     IN Consume(SumSeq(e.t, LAMBDA x :
                  LET exp == ByTarget(hol, x[1])
                  IN IF x[2] # 0 THEN Chk("C14.byTarget.panic", x[1], FALSE)
                     ELSE Chk("C14.byTarget", << x[1], Cardinality(exp), Len(x[3]) >>, RecSet(x[3]) = exp /\ Len(x[3]) = Cardinality(exp))
                          + Chk("C14.byTarget.string-form", x[1], x[4] = x[3])))
  /\ UNCHANGED << hol, rest >>

\* e.after holds the raw records of the years e.years after the call; e.rest is a digest of all other raw records
C14Fix ==
  /\ IsEv("C14Fix")
  /\ LET e == Trace[l]
         exp == ApplyFix(hol, e.segs)
         inYears(r) == (RDay(r) \div 10000) \in SeqSet(e.years)
         obs == RecSet(e.after)
     IN /\ Consume(IF e.p # 0 THEN Chk("C14.fix.panic", << e.seq, e.k, e.segs >>, FALSE)
                   ELSE Chk("C14.fix.exact", << e.seq, e.k, e.segs, obs \ exp, { r \in exp : inYears(r) } \ obs >>,
                            obs = { r \in exp : inYears(r) } /\ Len(e.after) = Cardinality(obs))
                        + Chk("C14.fix.others-unchanged", << e.seq, e.k, e.segs >>,
                              e.rest = rest /\ e.total = Cardinality(exp))
                        + Chk("C14.table.aligned", << e.seq, e.k >>, e.rawlen = 18 * e.total))
        \* resynchronise on the observed records of those years
        /\ hol' = { r \in hol : ~inYears(r) } \cup obs
        /\ UNCHANGED rest

\* HN: the records of the year before .. after the frame's (short walks), HF: three years either side (the long ones)
WorkRow(HN, HF, x) ==
  IF x.p # 0 THEN Chk("C14.workday.panic", x.d, FALSE)
  ELSE LET j == DayToJdn(x.d)
           H == HN
       IN SumSeq(x.nx, LAMBDA q :
            LET HQ == IF q[1] > 100 \/ q[1] < -100 THEN HF ELSE HN
                b == NextWorkday(HQ, j, q[1])
            IN Chk("C14.workday.next", << x.d, q[1], q[2] >>, q[2] = JdnToDay(b))
               \* the defining law, stated on the observed landing day
               + (LET o == DayToJdn(q[2])
                  IN Chk("C14.workday.law", << x.d, q[1], q[2] >>,
                         /\ IsWorkday(HQ, o)
                         \* (the distance bound only keeps the counted range finite when an observation is absurd)
                         /\ (q[1] > 0 => (o > j /\ o - j < 60 + 2 * q[1] /\ WorkdaysBetween(HQ, j, o) = q[1]))
                         /\ (q[1] < 0 => (o < j /\ j - o < 60 - 2 * q[1] /\ WorkdaysBetween(HQ, o - 1, j - 1) = -q[1])))))
          + (IF Has(x, "z") THEN Chk("C14.workday.zero", x.d, x.z = << x.d >>) ELSE 0)
          + (IF Has(x, "sal")
               THEN Chk("C14.salaryRate", << x.d, x.sal >>, x.sal[1] = SalaryRate(H, x.d, x.sal[2], x.sal[3], x.sal[4] = 1))
               ELSE 0)
WorkRows(HN, HF, rows) == SumSeq(rows, LAMBDA x : WorkRow(HN, HF, x))
C14Work ==
  /\ IsEv("C14Work")
  /\ LET e == Trace[l]
     IN Consume(WorkRows({ r \in hol : (RDay(r) \div 10000) \in (e.y - 1)..(e.y + 1) },
                         { r \in hol : (RDay(r) \div 10000) \in (e.y - 3)..(e.y + 3) }, e.rows))
  /\ UNCHANGED << hol, rest >>

TraceInit == KitInit /\ hol = {} /\ rest = ""
TraceNext == C14Table \/ C14Views \/ C14Targets \/ C14Fix \/ C14Work
TraceSpec == TraceInit /\ [][TraceNext]_tvars
=============================================================================
