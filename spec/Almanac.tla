------------------------------ MODULE Almanac ------------------------------
(***************************************************************************)
(* Which accessors must agree (C11) and which attributes are functions of  *)
(* which inputs (C11 for the eight characters, C18 for the almanac), as    *)
(* hand-written tables of accessor expressions "Object.Method(args)".      *)
(* The driver evaluates exactly these expressions (vcheck extracts them    *)
(* from this file); the trace specification compares them.                 *)
(***************************************************************************)
EXTENDS Integers, Sequences, Vocab

(* ---- C11: two routes to the same fact ---------------------------------- *)
Equiv == {
  \* the hour object of a lunar date vs the lunar date's own hour accessors
  << "LunarTime.GetGanZhi", "Lunar.GetTimeInGanZhi" >>, << "LunarTime.GetGan", "Lunar.GetTimeGan" >>, << "LunarTime.GetZhi", "Lunar.GetTimeZhi" >>,
  << "LunarTime.GetGanIndex", "Lunar.GetTimeGanIndex" >>, << "LunarTime.GetZhiIndex", "Lunar.GetTimeZhiIndex" >>,
  << "LunarTime.GetShengXiao", "Lunar.GetTimeShengXiao" >>, << "LunarTime.GetNaYin", "Lunar.GetTimeNaYin" >>,
  << "LunarTime.GetNineStar", "Lunar.GetTimeNineStar" >>,
  << "LunarTime.GetTianShen", "Lunar.GetTimeTianShen" >>, << "LunarTime.GetTianShenType", "Lunar.GetTimeTianShenType" >>,
  << "LunarTime.GetTianShenLuck", "Lunar.GetTimeTianShenLuck" >>,
  << "LunarTime.GetPositionXi", "Lunar.GetTimePositionXi" >>, << "LunarTime.GetPositionXiDesc", "Lunar.GetTimePositionXiDesc" >>,
  << "LunarTime.GetPositionYangGui", "Lunar.GetTimePositionYangGui" >>, << "LunarTime.GetPositionYangGuiDesc", "Lunar.GetTimePositionYangGuiDesc" >>,
  << "LunarTime.GetPositionYinGui", "Lunar.GetTimePositionYinGui" >>, << "LunarTime.GetPositionYinGuiDesc", "Lunar.GetTimePositionYinGuiDesc" >>,
  << "LunarTime.GetPositionFu", "Lunar.GetTimePositionFu" >>, << "LunarTime.GetPositionFuDesc", "Lunar.GetTimePositionFuDesc" >>,
  << "LunarTime.GetPositionCai", "Lunar.GetTimePositionCai" >>, << "LunarTime.GetPositionCaiDesc", "Lunar.GetTimePositionCaiDesc" >>,
  << "LunarTime.GetChong", "Lunar.GetTimeChong" >>, << "LunarTime.GetSha", "Lunar.GetTimeSha" >>, << "LunarTime.GetChongGan", "Lunar.GetTimeChongGan" >>,
  << "LunarTime.GetChongGanTie", "Lunar.GetTimeChongGanTie" >>, << "LunarTime.GetChongShengXiao", "Lunar.GetTimeChongShengXiao" >>,
  << "LunarTime.GetChongDesc", "Lunar.GetTimeChongDesc" >>,
  << "LunarTime.GetYi", "Lunar.GetTimeYi" >>, << "LunarTime.GetJi", "Lunar.GetTimeJi" >>,
  << "LunarTime.GetXun", "Lunar.GetTimeXun" >>, << "LunarTime.GetXunKong", "Lunar.GetTimeXunKong" >>,
  \* the lunar-year object vs the lunar date's New-Year-based year accessors
  << "LunarYear.GetGanZhi", "Lunar.GetYearInGanZhi" >>, << "LunarYear.GetGan", "Lunar.GetYearGan" >>, << "LunarYear.GetZhi", "Lunar.GetYearZhi" >>,
  << "LunarYear.GetGanIndex", "Lunar.GetYearGanIndex" >>, << "LunarYear.GetZhiIndex", "Lunar.GetYearZhiIndex" >>,
  << "LunarYear.GetNineStar", "Lunar.GetYearNineStarBySect(1)" >>,
  << "LunarYear.GetPositionTaiSui", "Lunar.GetYearPositionTaiSuiBySect(1)" >>, << "LunarYear.GetPositionTaiSuiDesc", "Lunar.GetYearPositionTaiSuiDescBySect(1)" >>,
  << "LunarYear.GetYear", "Lunar.GetYear" >>, << "LunarMonth.GetYear", "Lunar.GetYear" >>, << "LunarMonth.GetMonth", "Lunar.GetMonth" >>,
  \* deprecated aliases and their replacements
  << "Lunar.GetGan", "Lunar.GetYearGan" >>, << "Lunar.GetZhi", "Lunar.GetYearZhi" >>, << "Lunar.GetShengxiao", "Lunar.GetYearShengXiao" >>,
  << "Lunar.GetPositionXi", "Lunar.GetDayPositionXi" >>, << "Lunar.GetPositionXiDesc", "Lunar.GetDayPositionXiDesc" >>,
  << "Lunar.GetPositionYangGui", "Lunar.GetDayPositionYangGui" >>, << "Lunar.GetPositionYangGuiDesc", "Lunar.GetDayPositionYangGuiDesc" >>,
  << "Lunar.GetPositionYinGui", "Lunar.GetDayPositionYinGui" >>, << "Lunar.GetPositionYinGuiDesc", "Lunar.GetDayPositionYinGuiDesc" >>,
  << "Lunar.GetPositionFu", "Lunar.GetDayPositionFu" >>, << "Lunar.GetPositionFuDesc", "Lunar.GetDayPositionFuDesc" >>,
  << "Lunar.GetPositionCai", "Lunar.GetDayPositionCai" >>, << "Lunar.GetPositionCaiDesc", "Lunar.GetDayPositionCaiDesc" >>,
  << "Lunar.GetChong", "Lunar.GetDayChong" >>, << "Lunar.GetChongGan", "Lunar.GetDayChongGan" >>, << "Lunar.GetChongGanTie", "Lunar.GetDayChongGanTie" >>,
  << "Lunar.GetChongShengXiao", "Lunar.GetDayChongShengXiao" >>, << "Lunar.GetChongDesc", "Lunar.GetDayChongDesc" >>, << "Lunar.GetSha", "Lunar.GetDaySha" >>,
  << "Solar.GetXingzuo", "Solar.GetXingZuo" >>,
  << "Lunar.GetBaZiShiShenYearZhi", "EightChar.GetYearShiShenZhi" >>, << "Lunar.GetBaZiShiShenMonthZhi", "EightChar.GetMonthShiShenZhi" >>,
  << "Lunar.GetBaZiShiShenDayZhi", "EightChar.GetDayShiShenZhi" >>, << "Lunar.GetBaZiShiShenTimeZhi", "EightChar.GetTimeShiShenZhi" >>,
  \* default-school accessors and the explicit school they document
  << "Lunar.GetDayPositionFu", "Lunar.GetDayPositionFuBySect(2)" >>, << "Lunar.GetDayPositionFuDesc", "Lunar.GetDayPositionFuDescBySect(2)" >>,
  << "Lunar.GetYearPositionTaiSui", "Lunar.GetYearPositionTaiSuiBySect(2)" >>, << "Lunar.GetYearPositionTaiSuiDesc", "Lunar.GetYearPositionTaiSuiDescBySect(2)" >>,
  << "Lunar.GetMonthPositionTaiSui", "Lunar.GetMonthPositionTaiSuiBySect(2)" >>, << "Lunar.GetMonthPositionTaiSuiDesc", "Lunar.GetMonthPositionTaiSuiDescBySect(2)" >>,
  << "Lunar.GetDayPositionTaiSui", "Lunar.GetDayPositionTaiSuiBySect(2)" >>, << "Lunar.GetDayPositionTaiSuiDesc", "Lunar.GetDayPositionTaiSuiDescBySect(2)" >>,
  << "Lunar.GetYearNineStar", "Lunar.GetYearNineStarBySect(2)" >>, << "Lunar.GetMonthNineStar", "Lunar.GetMonthNineStarBySect(2)" >>,
  << "Lunar.GetDayYi", "Lunar.GetDayYiBySect(1)" >>, << "Lunar.GetDayJi", "Lunar.GetDayJiBySect(1)" >>,
  << "LunarTime.GetPositionFu", "LunarTime.GetPositionFuBySect(2)" >>, << "LunarTime.GetPositionFuDesc", "LunarTime.GetPositionFuDescBySect(2)" >>,
  << "LunarYear.GetPositionFu", "LunarYear.GetPositionFuBySect(2)" >>, << "LunarYear.GetPositionFuDesc", "LunarYear.GetPositionFuDescBySect(2)" >>,
  << "LunarMonth.GetPositionFu", "LunarMonth.GetPositionFuBySect(2)" >>, << "LunarMonth.GetPositionFuDesc", "LunarMonth.GetPositionFuDescBySect(2)" >>,
  << "Lunar.GetNextJie", "Lunar.GetNextJieByWholeDay(0)" >>, << "Lunar.GetPrevJie", "Lunar.GetPrevJieByWholeDay(0)" >>,
  << "Lunar.GetNextQi", "Lunar.GetNextQiByWholeDay(0)" >>, << "Lunar.GetPrevQi", "Lunar.GetPrevQiByWholeDay(0)" >>,
  << "Lunar.GetNextJieQi", "Lunar.GetNextJieQiByWholeDay(0)" >>, << "Lunar.GetPrevJieQi", "Lunar.GetPrevJieQiByWholeDay(0)" >>,
  << "Yun1.GetStartYear", "Yun1s1.GetStartYear" >>, << "Yun1.GetStartMonth", "Yun1s1.GetStartMonth" >>, << "Yun1.GetStartDay", "Yun1s1.GetStartDay" >>,
  << "Yun0.GetStartYear", "Yun0s1.GetStartYear" >>, << "Yun0.GetStartMonth", "Yun0s1.GetStartMonth" >>, << "Yun0.GetStartDay", "Yun0s1.GetStartDay" >>,
  \* the eight characters select their pillars from the lunar date's exact pillars
  << "EightChar.GetYear", "Lunar.GetYearInGanZhiExact" >>, << "EightChar.GetYearGan", "Lunar.GetYearGanExact" >>, << "EightChar.GetYearZhi", "Lunar.GetYearZhiExact" >>,
  << "EightChar.GetMonth", "Lunar.GetMonthInGanZhiExact" >>, << "EightChar.GetMonthGan", "Lunar.GetMonthGanExact" >>, << "EightChar.GetMonthZhi", "Lunar.GetMonthZhiExact" >>,
  << "EightChar.GetTime", "Lunar.GetTimeInGanZhi" >>, << "EightChar.GetTimeGan", "Lunar.GetTimeGan" >>, << "EightChar.GetTimeZhi", "Lunar.GetTimeZhi" >>,
  << "EightChar.GetYearXun", "Lunar.GetYearXunExact" >>, << "EightChar.GetYearXunKong", "Lunar.GetYearXunKongExact" >>,
  << "EightChar.GetMonthXun", "Lunar.GetMonthXunExact" >>, << "EightChar.GetMonthXunKong", "Lunar.GetMonthXunKongExact" >>,
  << "EightChar.GetTimeXun", "Lunar.GetTimeXun" >>, << "EightChar.GetTimeXunKong", "Lunar.GetTimeXunKong" >>,
  << "EightChar.GetTimeNaYin", "Lunar.GetTimeNaYin" >> }
\* pairs whose right-hand side depends on the day-boundary convention in force (sect 1: early rat, sect 2: late rat)
SectEquiv == {
  << "EightChar.GetDay", "Lunar.GetDayInGanZhiExact", "Lunar.GetDayInGanZhiExact2" >>,
  << "EightChar.GetDayGan", "Lunar.GetDayGanExact", "Lunar.GetDayGanExact2" >>,
  << "EightChar.GetDayZhi", "Lunar.GetDayZhiExact", "Lunar.GetDayZhiExact2" >>,
  << "EightChar.GetDayGanIndex", "Lunar.GetDayGanIndexExact", "Lunar.GetDayGanIndexExact2" >>,
  << "EightChar.GetDayZhiIndex", "Lunar.GetDayZhiIndexExact", "Lunar.GetDayZhiIndexExact2" >>,
  << "EightChar.GetDayXun", "Lunar.GetDayXunExact", "Lunar.GetDayXunExact2" >>,
  << "EightChar.GetDayXunKong", "Lunar.GetDayXunKongExact", "Lunar.GetDayXunKongExact2" >> }
\* the deprecated array accessors: element i of the array vs the i-th pillar accessor
BaZiArrays == {
  << "Lunar.GetBaZi", << "EightChar.GetYear", "EightChar.GetMonth", "EightChar.GetDay", "EightChar.GetTime" >> >>,
  << "Lunar.GetBaZiWuXing", << "EightChar.GetYearWuXing", "EightChar.GetMonthWuXing", "EightChar.GetDayWuXing", "EightChar.GetTimeWuXing" >> >>,
  << "Lunar.GetBaZiNaYin", << "EightChar.GetYearNaYin", "EightChar.GetMonthNaYin", "EightChar.GetDayNaYin", "EightChar.GetTimeNaYin" >> >>,
  << "Lunar.GetBaZiShiShenGan", << "EightChar.GetYearShiShenGan", "EightChar.GetMonthShiShenGan", "EightChar.GetDayShiShenGan", "EightChar.GetTimeShiShenGan" >> >> }

(* ---- C11: every derived attribute of a pillar is a function of that pillar (and the day stem in force) ---- *)
\* << attribute name, value expression, << key expressions >> >>
FD11 == {
  << "ec.yearWuXing", "EightChar.GetYearWuXing", << "EightChar.GetYear" >> >>, << "ec.monthWuXing", "EightChar.GetMonthWuXing", << "EightChar.GetMonth" >> >>,
  << "ec.dayWuXing", "EightChar.GetDayWuXing", << "EightChar.GetDay" >> >>, << "ec.timeWuXing", "EightChar.GetTimeWuXing", << "EightChar.GetTime" >> >>,
  << "ec.yearNaYin", "EightChar.GetYearNaYin", << "EightChar.GetYear" >> >>, << "ec.monthNaYin", "EightChar.GetMonthNaYin", << "EightChar.GetMonth" >> >>,
  << "ec.dayNaYin", "EightChar.GetDayNaYin", << "EightChar.GetDay" >> >>, << "ec.timeNaYin", "EightChar.GetTimeNaYin", << "EightChar.GetTime" >> >>,
  << "ec.yearShiShenGan", "EightChar.GetYearShiShenGan", << "EightChar.GetDayGan", "EightChar.GetYearGan" >> >>,
  << "ec.monthShiShenGan", "EightChar.GetMonthShiShenGan", << "EightChar.GetDayGan", "EightChar.GetMonthGan" >> >>,
  << "ec.timeShiShenGan", "EightChar.GetTimeShiShenGan", << "EightChar.GetDayGan", "EightChar.GetTimeGan" >> >>,
  << "ec.yearShiShenZhi", "EightChar.GetYearShiShenZhi", << "EightChar.GetDayGan", "EightChar.GetYearZhi" >> >>,
  << "ec.monthShiShenZhi", "EightChar.GetMonthShiShenZhi", << "EightChar.GetDayGan", "EightChar.GetMonthZhi" >> >>,
  << "ec.dayShiShenZhi", "EightChar.GetDayShiShenZhi", << "EightChar.GetDayGan", "EightChar.GetDayZhi" >> >>,
  << "ec.timeShiShenZhi", "EightChar.GetTimeShiShenZhi", << "EightChar.GetDayGan", "EightChar.GetTimeZhi" >> >>,
  << "ec.yearHideGan", "EightChar.GetYearHideGan", << "EightChar.GetYearZhi" >> >>, << "ec.monthHideGan", "EightChar.GetMonthHideGan", << "EightChar.GetMonthZhi" >> >>,
  << "ec.dayHideGan", "EightChar.GetDayHideGan", << "EightChar.GetDayZhi" >> >>, << "ec.timeHideGan", "EightChar.GetTimeHideGan", << "EightChar.GetTimeZhi" >> >>,
  << "ec.yearDiShi", "EightChar.GetYearDiShi", << "EightChar.GetDayGan", "EightChar.GetYearZhi" >> >>,
  << "ec.monthDiShi", "EightChar.GetMonthDiShi", << "EightChar.GetDayGan", "EightChar.GetMonthZhi" >> >>,
  << "ec.dayDiShi", "EightChar.GetDayDiShi", << "EightChar.GetDayGan", "EightChar.GetDayZhi" >> >>,
  << "ec.timeDiShi", "EightChar.GetTimeDiShi", << "EightChar.GetDayGan", "EightChar.GetTimeZhi" >> >>,
  << "ec.yearXun", "EightChar.GetYearXun", << "EightChar.GetYear" >> >>, << "ec.yearXunKong", "EightChar.GetYearXunKong", << "EightChar.GetYear" >> >>,
  << "ec.monthXun", "EightChar.GetMonthXun", << "EightChar.GetMonth" >> >>, << "ec.monthXunKong", "EightChar.GetMonthXunKong", << "EightChar.GetMonth" >> >>,
  << "ec.dayXun", "EightChar.GetDayXun", << "EightChar.GetDay" >> >>, << "ec.dayXunKong", "EightChar.GetDayXunKong", << "EightChar.GetDay" >> >>,
  << "ec.timeXun", "EightChar.GetTimeXun", << "EightChar.GetTime" >> >>, << "ec.timeXunKong", "EightChar.GetTimeXunKong", << "EightChar.GetTime" >> >>,
  << "ec.taiYuan", "EightChar.GetTaiYuan", << "EightChar.GetMonth" >> >>, << "ec.taiYuanNaYin", "EightChar.GetTaiYuanNaYin", << "EightChar.GetMonth" >> >>,
  << "ec.taiXi", "EightChar.GetTaiXi", << "EightChar.GetDay" >> >>, << "ec.taiXiNaYin", "EightChar.GetTaiXiNaYin", << "EightChar.GetDay" >> >>,
  << "ec.mingGong", "EightChar.GetMingGong", << "EightChar.GetYearGan", "EightChar.GetMonthZhi", "EightChar.GetTimeZhi" >> >>,
  << "ec.shenGong", "EightChar.GetShenGong", << "EightChar.GetYearGan", "EightChar.GetMonthZhi", "EightChar.GetTimeZhi" >> >> }

(* ---- C18: table-driven almanac attributes and their defining inputs ------ *)
FD18 == {
  \* by the day stem
  << "day.positionXi", "Lunar.GetDayPositionXi", << "Lunar.GetDayGan" >> >>, << "day.positionXiDesc", "Lunar.GetDayPositionXiDesc", << "Lunar.GetDayGan" >> >>,
  << "day.positionYangGui", "Lunar.GetDayPositionYangGui", << "Lunar.GetDayGan" >> >>, << "day.positionYinGui", "Lunar.GetDayPositionYinGui", << "Lunar.GetDayGan" >> >>,
  << "day.positionFu1", "Lunar.GetDayPositionFuBySect(1)", << "Lunar.GetDayGan" >> >>, << "day.positionFu2", "Lunar.GetDayPositionFuBySect(2)", << "Lunar.GetDayGan" >> >>,
  << "day.positionCai", "Lunar.GetDayPositionCai", << "Lunar.GetDayGan" >> >>, << "day.pengZuGan", "Lunar.GetPengZuGan", << "Lunar.GetDayGan" >> >>,
  << "day.chongGan", "Lunar.GetDayChongGan", << "Lunar.GetDayGan" >> >>, << "day.chongGanTie", "Lunar.GetDayChongGanTie", << "Lunar.GetDayGan" >> >>,
  \* by the hour stem
  << "time.positionXi", "Lunar.GetTimePositionXi", << "Lunar.GetTimeGan" >> >>, << "time.positionYangGui", "Lunar.GetTimePositionYangGui", << "Lunar.GetTimeGan" >> >>,
  << "time.positionYinGui", "Lunar.GetTimePositionYinGui", << "Lunar.GetTimeGan" >> >>, << "time.positionFu", "Lunar.GetTimePositionFu", << "Lunar.GetTimeGan" >> >>,
  << "time.positionCai", "Lunar.GetTimePositionCai", << "Lunar.GetTimeGan" >> >>, << "time.chongGan", "Lunar.GetTimeChongGan", << "Lunar.GetTimeGan" >> >>,
  << "time.chongGanTie", "Lunar.GetTimeChongGanTie", << "Lunar.GetTimeGan" >> >>,
  << "lt.positionXi", "LunarTime.GetPositionXi", << "LunarTime.GetGan" >> >>, << "lt.positionCai", "LunarTime.GetPositionCai", << "LunarTime.GetGan" >> >>,
  << "lt.positionFu1", "LunarTime.GetPositionFuBySect(1)", << "LunarTime.GetGan" >> >>, << "lt.positionFu2", "LunarTime.GetPositionFuBySect(2)", << "LunarTime.GetGan" >> >>,
  \* by the branch
  << "day.pengZuZhi", "Lunar.GetPengZuZhi", << "Lunar.GetDayZhi" >> >>, << "day.chong", "Lunar.GetDayChong", << "Lunar.GetDayZhi" >> >>,
  << "day.chongShengXiao", "Lunar.GetDayChongShengXiao", << "Lunar.GetDayZhi" >> >>, << "day.sha", "Lunar.GetDaySha", << "Lunar.GetDayZhi" >> >>,
  << "time.chong", "Lunar.GetTimeChong", << "Lunar.GetTimeZhi" >> >>, << "time.chongShengXiao", "Lunar.GetTimeChongShengXiao", << "Lunar.GetTimeZhi" >> >>,
  << "time.sha", "Lunar.GetTimeSha", << "Lunar.GetTimeZhi" >> >>, << "lt.chong", "LunarTime.GetChong", << "LunarTime.GetZhi" >> >>, << "lt.sha", "LunarTime.GetSha", << "LunarTime.GetZhi" >> >>,
  << "day.chongDesc", "Lunar.GetDayChongDesc", << "Lunar.GetDayInGanZhi" >> >>, << "time.chongDesc", "Lunar.GetTimeChongDesc", << "Lunar.GetTimeInGanZhi" >> >>,
  << "day.lu", "Lunar.GetDayLu", << "Lunar.GetDayInGanZhi" >> >>,
  \* by the stem-branch pair
  << "year.naYin", "Lunar.GetYearNaYin", << "Lunar.GetYearInGanZhi" >> >>, << "month.naYin", "Lunar.GetMonthNaYin", << "Lunar.GetMonthInGanZhi" >> >>,
  << "day.naYin", "Lunar.GetDayNaYin", << "Lunar.GetDayInGanZhi" >> >>, << "time.naYin", "Lunar.GetTimeNaYin", << "Lunar.GetTimeInGanZhi" >> >>,
  << "year.xun", "Lunar.GetYearXun", << "Lunar.GetYearInGanZhi" >> >>, << "year.xunKong", "Lunar.GetYearXunKong", << "Lunar.GetYearInGanZhi" >> >>,
  << "year.xunByLiChun", "Lunar.GetYearXunByLiChun", << "Lunar.GetYearInGanZhiByLiChun" >> >>, << "year.xunKongExact", "Lunar.GetYearXunKongExact", << "Lunar.GetYearInGanZhiExact" >> >>,
  << "month.xun", "Lunar.GetMonthXun", << "Lunar.GetMonthInGanZhi" >> >>, << "month.xunKong", "Lunar.GetMonthXunKong", << "Lunar.GetMonthInGanZhi" >> >>,
  << "month.xunExact", "Lunar.GetMonthXunExact", << "Lunar.GetMonthInGanZhiExact" >> >>, << "month.xunKongExact", "Lunar.GetMonthXunKongExact", << "Lunar.GetMonthInGanZhiExact" >> >>,
  << "day.xun", "Lunar.GetDayXun", << "Lunar.GetDayInGanZhi" >> >>, << "day.xunKong", "Lunar.GetDayXunKong", << "Lunar.GetDayInGanZhi" >> >>,
  << "day.xunExact", "Lunar.GetDayXunExact", << "Lunar.GetDayInGanZhiExact" >> >>, << "day.xunKongExact2", "Lunar.GetDayXunKongExact2", << "Lunar.GetDayInGanZhiExact2" >> >>,
  << "day.xunKongExact", "Lunar.GetDayXunKongExact", << "Lunar.GetDayInGanZhiExact" >> >>, << "day.xunExact2", "Lunar.GetDayXunExact2", << "Lunar.GetDayInGanZhiExact2" >> >>,
  << "year.xunExact", "Lunar.GetYearXunExact", << "Lunar.GetYearInGanZhiExact" >> >>,
  << "year.xunKongByLiChun", "Lunar.GetYearXunKongByLiChun", << "Lunar.GetYearInGanZhiByLiChun" >> >>,
  << "time.xun", "Lunar.GetTimeXun", << "Lunar.GetTimeInGanZhi" >> >>, << "time.xunKong", "Lunar.GetTimeXunKong", << "Lunar.GetTimeInGanZhi" >> >>,
  << "day.positionTai", "Lunar.GetDayPositionTai", << "Lunar.GetDayInGanZhi" >> >>,
  \* by month branch and day branch
  << "day.zhiXing", "Lunar.GetZhiXing", << "Lunar.GetMonthZhi", "Lunar.GetDayZhi" >> >>,
  << "day.tianShen", "Lunar.GetDayTianShen", << "Lunar.GetMonthZhi", "Lunar.GetDayZhi" >> >>,
  << "day.tianShenType", "Lunar.GetDayTianShenType", << "Lunar.GetMonthZhi", "Lunar.GetDayZhi" >> >>,
  << "day.tianShenLuck", "Lunar.GetDayTianShenLuck", << "Lunar.GetMonthZhi", "Lunar.GetDayZhi" >> >>,
  \* by (early-rat) day branch and hour branch
  << "time.tianShen", "Lunar.GetTimeTianShen", << "Lunar.GetDayZhiExact", "Lunar.GetTimeZhi" >> >>,
  << "time.tianShenLuck", "Lunar.GetTimeTianShenLuck", << "Lunar.GetDayZhiExact", "Lunar.GetTimeZhi" >> >>,
  << "lt.tianShen", "LunarTime.GetTianShen", << "Lunar.GetDayZhiExact", "LunarTime.GetZhi" >> >>,
  \* suitable / avoid lists by month and day pillars; by day and hour pillars
  << "day.yi", "Lunar.GetDayYiBySect(1)", << "Lunar.GetMonthInGanZhi", "Lunar.GetDayInGanZhi" >> >>,
  << "day.ji", "Lunar.GetDayJiBySect(1)", << "Lunar.GetMonthInGanZhi", "Lunar.GetDayInGanZhi" >> >>,
  << "day.yi2", "Lunar.GetDayYiBySect(2)", << "Lunar.GetMonthInGanZhiExact", "Lunar.GetDayInGanZhi" >> >>,
  << "day.ji2", "Lunar.GetDayJiBySect(2)", << "Lunar.GetMonthInGanZhiExact", "Lunar.GetDayInGanZhi" >> >>,
  << "time.yi", "Lunar.GetTimeYi", << "Lunar.GetDayInGanZhiExact", "Lunar.GetTimeInGanZhi" >> >>,
  << "time.ji", "Lunar.GetTimeJi", << "Lunar.GetDayInGanZhiExact", "Lunar.GetTimeInGanZhi" >> >>,
  << "lt.yi", "LunarTime.GetYi", << "Lunar.GetDayInGanZhiExact", "LunarTime.GetGanZhi" >> >>,
  \* auspicious / inauspicious spirits by lunar month and day pillar
  << "day.jiShen", "Lunar.GetDayJiShen", << "Lunar.GetMonth", "Lunar.GetDayInGanZhi" >> >>,
  << "day.xiongSha", "Lunar.GetDayXiongSha", << "Lunar.GetMonth", "Lunar.GetDayInGanZhi" >> >>,
  \* by lunar month and day
  << "yueXiang", "Lunar.GetYueXiang", << "Lunar.GetDay" >> >>, << "liuYao", "Lunar.GetLiuYao", << "Lunar.GetMonth", "Lunar.GetDay" >> >>,
  << "season", "Lunar.GetSeason", << "Lunar.GetMonth" >> >>, << "month.positionTai", "Lunar.GetMonthPositionTai", << "Lunar.GetMonth" >> >>,
  \* the mansion and what hangs on it
  << "xiu", "Lunar.GetXiu", << "Lunar.GetDayZhi", "Lunar.GetWeek" >> >>, << "xiuLuck", "Lunar.GetXiuLuck", << "Lunar.GetXiu" >> >>, << "zheng", "Lunar.GetZheng", << "Lunar.GetXiu" >> >>,
  << "animal", "Lunar.GetAnimal", << "Lunar.GetXiu" >> >>, << "gong", "Lunar.GetGong", << "Lunar.GetXiu" >> >>, << "shou", "Lunar.GetShou", << "Lunar.GetGong" >> >>,
  << "xiuSong", "Lunar.GetXiuSong", << "Lunar.GetXiu" >> >>,
  \* year / month level positions
  << "year.positionTaiSui1", "Lunar.GetYearPositionTaiSuiBySect(1)", << "Lunar.GetYearZhi" >> >>,
  << "year.positionTaiSui3", "Lunar.GetYearPositionTaiSuiBySect(3)", << "Lunar.GetYearZhiExact" >> >>,
  << "month.positionTaiSui", "Lunar.GetMonthPositionTaiSuiBySect(2)", << "Lunar.GetMonthInGanZhi" >> >>,
  << "month.positionTaiSui3", "Lunar.GetMonthPositionTaiSuiBySect(3)", << "Lunar.GetMonthInGanZhiExact" >> >>,
  << "day.positionTaiSui1", "Lunar.GetDayPositionTaiSuiBySect(1)", << "Lunar.GetDayInGanZhi", "Lunar.GetYearZhi" >> >> }
=============================================================================
