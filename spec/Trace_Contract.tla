---------------------------- MODULE Trace_Contract ----------------------------
(***************************************************************************)
(* Trace specification for C08: one event per accessor, aggregated by the  *)
(* driver over all the dates and objects it walked (the claim is           *)
(* universal, so "all observed values are allowed" is what is checked).    *)
(***************************************************************************)
EXTENDS Contract, TraceKit
tvars == << l, rej >>
SeqSet(s) == { s[i] : i \in 1..Len(s) }
C08Acc ==
  /\ IsEv("C08Acc")
  /\ LET e == Trace[l]
         c == ContractOf(e.acc)
         V == SeqSet(e.vals)
     IN Consume(
          IF c.k = "unclassified" THEN Chk("C08.accessor.unclassified", << e.acc, e.kind >>, FALSE)
          ELSE
            \* total: never panics on a valid date
            Chk("C08.total", << e.acc, e.panics, e.wit >>, e.panics = 0)
            + (CASE c.k = "int" -> Chk("C08.index-in-range", << e.acc, e.min, e.max >>, e.kind = "int" /\ (e.calls = e.panics \/ (e.min >= c.lo /\ e.max <= c.hi)))
                 [] c.k = "in" -> Chk("C08.name-from-vocabulary", << e.acc, c.set, V \ (VocabSet(c.set) \cup {""}) >>,
                                      e.over = 0 /\ V \subseteq (VocabSet(c.set) \cup {""}))
                                  + (IF c.opt THEN 0 ELSE Chk("C08.non-empty", << e.acc, e.empties >>, e.empties = 0))
                 [] c.k = "str" -> (IF c.nonempty THEN Chk("C08.non-empty", << e.acc, e.empties >>, e.empties = 0) ELSE 0)
                 [] c.k = "list" -> Chk("C08.list-elements-of-one-type", << e.acc, e.etypes >>, Len(e.etypes) <= 1)
                                    + (IF c.nodup THEN Chk("C08.list-no-duplicates", << e.acc, e.dup >>, Len(e.dup) = 0) ELSE 0)
                                    + (IF c.nonempty THEN Chk("C08.list-non-empty", << e.acc, e.lists >>, \A i \in 1..Len(e.lists) : e.lists[i][1] > 0) ELSE 0)
                                    + (IF c.set # "" THEN Chk("C08.name-from-vocabulary", << e.acc, c.set, V \ VocabSet(c.set) >>, e.over = 0 /\ V \subseteq VocabSet(c.set)) ELSE 0)
                 [] c.k = "obj" -> Chk("C08.object-present", e.acc, "<nil>" \notin V)
                 [] OTHER -> 0))
TraceInit == KitInit
TraceNext == C08Acc
TraceSpec == TraceInit /\ [][TraceNext]_tvars
=============================================================================
