------------------------------ MODULE TraceKit ------------------------------
(***************************************************************************)
(* Shared machinery of every trace specification: the trace is an NDJSON   *)
(* file named by the environment variable TRACE; line l is consumed by     *)
(* one step; every predicate is a *named, non-blocking check*: a failing   *)
(* check prints a REJECT line and counts, and the trace goes on so that    *)
(* the rest of it is still examined.  vcheck accepts a run iff TLC ends    *)
(* normally, DONE reports consumed = length, and no REJECT is unaccounted. *)
(***************************************************************************)
EXTENDS Integers, Sequences, TLC, Json, IOUtils, SequencesExt

Trace == ndJsonDeserialize(IOEnv.TRACE)

VARIABLES l, rej

Chk(name, key, c) == IF c THEN 0 ELSE IF PrintT(<< "REJECT", name, l, key >>) THEN 1 ELSE 1
\* sum of F over a sequence
SumSeq(s, F(_)) == FoldLeft(LAMBDA acc, x : acc + F(x), 0, s)
\* sum of F over 1..n
SumN(n, F(_)) == FoldLeft(LAMBDA acc, x : acc + F(x), 0, [i \in 1..n |-> i])
Has(e, f) == f \in DOMAIN e

KitInit == l = 1 /\ rej = 0
Consume(n) == l <= Len(Trace) /\ l' = l + 1 /\ rej' = rej + n
IsEv(name) == l <= Len(Trace) /\ Trace[l].ev = name
Done == PrintT(<< "DONE", TLCGet("stats").diameter - 1, Len(Trace), TLCGet("stats").diameter >>)
=============================================================================
