SPECIFICATION Spec
INVARIANTS SetsOK YangGongSpacing PointLaws
CHECK_DEADLOCK FALSE
