----------------------------- MODULE MC_GanZhi -----------------------------
(***************************************************************************)
(* The pillar rules as a cursor: (pillar year, month since Lichun, day     *)
(* number, hour slot).  Each action advances one wheel by one step; the    *)
(* invariants say the closed forms of GanZhi.tla agree with the classical  *)
(* rules for every combination: continuous month cycle = five tigers,      *)
(* hour stem by five rats, parity, 60-step periods.                        *)
(***************************************************************************)
EXTENDS GanZhi, TLC
VARIABLES yp, k, dj, slot
vars == << yp, k, dj, slot >>
\* the year/month wheels and the day/hour wheels are independent: two families of states
Init == \/ (yp \in 1924..2103 /\ k \in 0..11 /\ dj = 2451545 /\ slot = 0)
        \/ (yp = 1984 /\ k = 0 /\ dj \in 2451545..2451604 /\ slot \in 0..12)
Next == FALSE /\ UNCHANGED vars
Spec == Init /\ [][Next]_vars
M == MonthIdxOf(yp, k)
\* month pillar: stem tied to the pillar-year stem by the five-tigers rule, branch fixed by the month
FiveTigers == StemOf(M) = FiveTigersStem(StemOf(YearIdx(yp)), k) /\ BranchOf(M) = (k + 2) % 12
MonthAdvances == MonthIdxOf(IF k = 11 THEN yp + 1 ELSE yp, (k + 1) % 12) = (M + 1) % 60
YearAdvances == YearIdx(yp + 1) = (YearIdx(yp) + 1) % 60 /\ YearIdx(1984) = 0 /\ YearIdx(2024) = 40
DayAdvances == DayIdx(dj + 1) = (DayIdx(dj) + 1) % 60 /\ DayIdx(2451545) = 54
\* hour slot s covers 23:00-00:59 (s = 0 and s = 12), 01:00-02:59 (s = 1), ...
SlotSod == IF slot = 0 THEN 0 ELSE IF slot = 12 THEN 82800 ELSE (2 * slot - 1) * 3600
HourLaw == LET hb == HourBranch(SlotSod)
               ds == StemOf(DayIdxEarlyRat(dj, SlotSod))
               h == HourIdx(dj, SlotSod)
           IN /\ hb = slot % 12
              /\ BranchOf(h) = hb /\ StemOf(h) = HourStem(ds, hb)
              \* the rat hour before and after midnight carries the same pillar in the early-rat convention
              /\ (slot = 12 => h = HourIdx(dj + 1, 0))
              /\ ValidPair(StemOf(h), BranchOf(h))
Parity == ValidPair(StemOf(M), BranchOf(M)) /\ ValidPair(StemOf(YearIdx(yp)), BranchOf(YearIdx(yp)))
=============================================================================
