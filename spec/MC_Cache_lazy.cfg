SPECIFICATION Spec
CONSTANTS
 Procs <- ProcsV
 Years <- YearsV
 BadYears <- NoBad
 CallsPerProc = 1
 LazyEightChar = TRUE
INVARIANTS MutualExclusion NoRace
CHECK_DEADLOCK FALSE
