SPECIFICATION Spec
CONSTANTS MaxCalls = 2
VIEW view
INVARIANTS ViewsPartition WorkdayLaws
PROPERTIES FixExact
CHECK_DEADLOCK FALSE
