------------------------------- MODULE MC_BaZi -------------------------------
(***************************************************************************)
(* SameSlot is an equivalence on the hour marks of a three-day window whose *)
(* classes are the expected 37 (early rat) / 39 (late rat) slots.          *)
(***************************************************************************)
EXTENDS BaZi, FiniteSets, TLC
VARIABLES s, a, b
vars == << s, a, b >>
Marks == { [jdn |-> 2451545 + d, sod |-> h * 3600 + x] : d \in 0..2, h \in 0..23, x \in {0, 3599} }
Init == s \in {1, 2} /\ a \in Marks /\ b \in Marks
Next == FALSE /\ UNCHANGED vars
Spec == Init /\ [][Next]_vars
Equivalence == /\ SameSlot(s, a, a)
               /\ (SameSlot(s, a, b) => SameSlot(s, b, a))
               /\ \A c \in { m \in Marks : m.sod % 3600 = 0 } : (SameSlot(s, a, b) /\ SameSlot(s, b, c)) => SameSlot(s, a, c)
Classes == Cardinality({ SlotOf(s, m) : m \in Marks }) = (IF s = 1 THEN 37 ELSE 39)
\* both halves of the rat slot carry the same day and hour pillar in the early-rat convention
RatSlot == (s = 1 /\ a.sod >= 82800 /\ b.jdn = a.jdn + 1 /\ b.sod < 3600) =>
             (SameSlot(1, a, b) /\ DayIdxEarlyRat(a.jdn, a.sod) = DayIdxEarlyRat(b.jdn, b.sod) /\ HourIdx(a.jdn, a.sod) = HourIdx(b.jdn, b.sod))
SlotPillars == SameSlot(s, a, b) => (HourBranch(a.sod) = HourBranch(b.sod)
                                     /\ (IF s = 1 THEN DayIdxEarlyRat(a.jdn, a.sod) = DayIdxEarlyRat(b.jdn, b.sod)
                                                  ELSE DayIdxLateRat(a.jdn, a.sod) = DayIdxLateRat(b.jdn, b.sod)))
RepInSlot == SameSlot(s, Representative(s, a), a)
=============================================================================
