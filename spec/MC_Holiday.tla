----------------------------- MODULE MC_Holiday -----------------------------
(***************************************************************************)
(* The holiday table as a state machine: state = the record set, action =  *)
(* Fix(segments) with one or two segments over a small universe of days    *)
(* (two years, three months, two targets, deliberately interleaved).       *)
(* Invariants: the four views are filters of the same set and partition    *)
(* it.  Action property: a Fix changes exactly the named days.             *)
(* MBT: hist records the calls; leaves of depth MaxCalls are printed.      *)
(***************************************************************************)
EXTENDS Holiday, TLC
CONSTANTS MaxCalls
VARIABLES H, hist
vars == << H, hist >>
\* universe: six days; two of them (0930, 1008) are make-up days in the real calendar style
Days == { 20300101, 20300102, 20300928, 20301001, 20301012, 20310101 }
TargetOf(d) == IF d \in { 20300101, 20300102 } THEN 20300101 ELSE IF d = 20310101 THEN 20310101 ELSE 20301001
NameOf(d) == IF d \in { 20300101, 20300102, 20310101 } THEN 0 ELSE 6
Variants(d) == { << d, 0, NameOf(d), 0, TargetOf(d) >>, << d, 0, NameOf(d), 1, TargetOf(d) >>, << d, 1, 0, 0, 0 >> }
Segs == UNION { Variants(d) : d \in Days }
\* the universe lies outside the built-in table: every behaviour starts with none of its days recorded
Init == H = {} /\ hist = << >>
Fix1(s) == /\ Len(hist) < MaxCalls /\ H' = ApplyFix(H, << s >>) /\ hist' = Append(hist, << s >>)
Fix2(s, t) == /\ Len(hist) < MaxCalls /\ s[1] # t[1] /\ H' = ApplyFix(H, << s, t >>) /\ hist' = Append(hist, << s, t >>)
Next == (\E s \in Segs : Fix1(s)) \/ (\E s \in Segs, t \in Segs : Fix2(s, t))
Spec == Init /\ [][Next]_vars
view == H
Months == { d \div 100 : d \in Days }
Years == { d \div 10000 : d \in Days }
Targets == { TargetOf(d) : d \in Days }
SeqSet(s) == { s[i] : i \in 1..Len(s) }
ViewsPartition ==
  /\ UniqueDays(H)
  /\ UNION { ByDay(H, d) : d \in Days } = H
  /\ UNION { SeqSet(ByMonth(H, m)) : m \in Months } = H
  /\ UNION { SeqSet(ByYear(H, y)) : y \in Years } = H
  /\ UNION { ByTarget(H, t) : t \in Targets } = H
  /\ \A r \in H : /\ r \in SeqSet(ByMonth(H, RDay(r) \div 100)) /\ r \in SeqSet(ByYear(H, RDay(r) \div 10000)) /\ r \in ByTarget(H, RTarget(r))
  /\ \A m \in Months : LET s == ByMonth(H, m) IN \A i \in 1..(Len(s) - 1) : RDay(s[i]) < RDay(s[i + 1])
FixExact == [][ LET segs == hist'[Len(hist')]
                    touched == { segs[i][1] : i \in 1..Len(segs) }
                IN /\ { r \in H' : RDay(r) \notin touched } = { r \in H : RDay(r) \notin touched }          \* all others unchanged
                   /\ \A i \in 1..Len(segs) : IF segs[i][2] = 1 THEN ByDay(H', segs[i][1]) = {}
                                              ELSE ByDay(H', segs[i][1]) = { << segs[i][1], segs[i][3], segs[i][4], segs[i][5] >> } ]_vars
WorkdayLaws == \A d \in { 20300927, 20301001, 20301011 } : \A n \in { -3, -1, 1, 2, 4 } :
                 LET a == DayToJdn(d) b == NextWorkday(H, a, n)
                 IN /\ IsWorkday(H, b)
                    /\ (n > 0 => WorkdaysBetween(H, a, b) = n) /\ (n < 0 => WorkdaysBetween(H, b - 1, a - 1) = -n)
EmitLeaf == Len(hist) < MaxCalls \/ PrintT(<< "EDGE", hist >>)
=============================================================================
