----------------------------- MODULE Trace_Cache -----------------------------
(***************************************************************************)
(* Trace specification for C09.  The hook events of a run (emitted under   *)
(* the year-cache lock, in the order they happened) are folded through the *)
(* cache protocol of Cache.tla: each event must be an enabled step of the  *)
(* action of the same name for that process.  Results must equal the       *)
(* reference digests whatever the schedule or history was.                 *)
(***************************************************************************)
EXTENDS Integers, Sequences, FiniteSets, TraceKit
tvars == << l, rej >>

\* protocol state threaded through the event list: << cache, holder, phase of the holder, violations >>
\* phase: "locked" -> ("hit" | "miss" -> "computed" -> "published") -> released
StepOK(st, ev) ==
  LET p == ev[1] name == ev[2] y == ev[3] IN
  CASE name = "acquired"  -> st.holder = 0
    [] name = "hit"       -> st.holder = p /\ st.phase = "locked" /\ st.cache = y /\ st.req = y
    [] name = "miss"      -> st.holder = p /\ st.phase = "locked" /\ st.cache # y /\ st.req = y
    [] name = "computed"  -> st.holder = p /\ st.phase = "miss" /\ st.req = y
    [] name = "published" -> st.holder = p /\ st.phase = "computed" /\ st.req = y
    [] name = "released"  -> st.holder = p /\ st.phase \in {"hit", "published"} /\ st.req = y
    [] OTHER -> FALSE
StepTo(st, ev) ==
  LET p == ev[1] name == ev[2] y == ev[3] IN
  CASE name = "acquired"  -> [st EXCEPT !.holder = p, !.phase = "locked", !.req = y]
    [] name = "hit"       -> [st EXCEPT !.phase = "hit"]
    [] name = "miss"      -> [st EXCEPT !.phase = "miss"]
    [] name = "computed"  -> [st EXCEPT !.phase = "computed"]
    [] name = "published" -> [st EXCEPT !.phase = "published", !.cache = y]
    [] name = "released"  -> [st EXCEPT !.holder = 0, !.phase = "none"]
    [] OTHER -> st
Protocol(tag, cache0, events) ==
  FoldLeft(LAMBDA st, ev :
             IF StepOK(st, ev) THEN StepTo(st, ev)
             ELSE [StepTo(st, ev) EXCEPT !.bad = st.bad + Chk("C09.protocol." \o ev[2], << tag, st.n + 1, ev, st.cache, st.holder, st.phase >>, FALSE), !.n = st.n]
             ,
           [cache |-> cache0, holder |-> 0, phase |-> "none", req |-> 0, bad |-> 0, n |-> 0], events)
Acquisitions(events) == SelectSeq(events, LAMBDA ev : ev[2] = "acquired")

C09Run ==
  /\ IsEv("C09Run")
  /\ LET e == Trace[l]
         fin == Protocol(e.order, e.cache0, e.events)
         acq == Acquisitions(e.events)
     IN Consume(
          Chk("C09.blocked", e.order, e.blocked = 0)
          + (IF e.blocked # 0 THEN 0 ELSE
               fin.bad
               + Chk("C09.protocol.lock-free-at-end", e.order, fin.holder = 0)
               + Chk("C09.lock.left-held", e.order, e.lockfree = 1)
               \* the forced schedule was the one TLC chose
               + Chk("C09.schedule.followed", << e.order, [i \in 1..Len(acq) |-> acq[i][1]] >>, [i \in 1..Len(acq) |-> acq[i][1]] = e.order)
               + Chk("C09.calls.all-returned", << e.order, Len(e.calls) >>, Len(e.calls) = Len(e.order))
               + SumSeq(e.calls, LAMBDA c :
                   Chk("C09.result.independent-of-schedule", << e.order, c >>, c[6] = 0 /\ c[4] = c[5]))))

C09Hist ==
  /\ IsEv("C09Hist")
  /\ LET e == Trace[l]
     IN Consume(SumN(Len(e.calls), LAMBDA i :
                  LET c == e.calls[i]
                  IN Chk("C09.result.independent-of-history", << e.seq, i, c >>, c[2] = c[3] /\ c[4] = c[5]))
                + Chk("C09.lock.left-held", e.seq, e.lockfree = 1))

C09Stress ==
  /\ IsEv("C09Stress")
  /\ LET e == Trace[l]
         fin == Protocol("stress", e.cache0, e.events)
     IN Consume(
          Chk("C09.blocked", "stress", e.blocked = 0)
          + (IF e.blocked # 0 THEN 0 ELSE
               fin.bad
               + Chk("C09.lock.left-held", "stress", e.lockfree = 1)
               + (IF e.truncated = 0 THEN Chk("C09.protocol.lock-free-at-end", "stress", fin.holder = 0) ELSE 0)
               + Chk("C09.shared-object.goroutines-agree", << "stress", e.rounds, e.sharedDiffer >>, e.sharedDiffer = 0)
               \* value calls on separate objects made by goroutines released together = their single-goroutine reference
               + (IF Has(e, "valueDiffer") THEN Chk("C09.result.independent-of-concurrent-callers", << "stress", e.valueDiffer, e.valueWit >>, e.valueDiffer = 0) ELSE 0)
               + SumSeq(e.calls, LAMBDA c :
                   Chk("C09.result.independent-of-schedule", << "stress", c[1], c[2] >>, c[5] = 0 /\ c[3] = c[4])
                   + (IF Len(c) = 7 THEN Chk("C09.shared-object.read-only-accessors", << "stress", c[1] >>, c[6] = c[7]) ELSE 0))))

\* a data race reported by the race detector is never an allowed step
C09Race == IsEv("C09Race") /\ Consume(Chk("C09.data-race", Trace[l].site, FALSE))

\* the computation under the lock never panics (the Panic action of Cache.tla is never taken by the code)
C09Total == IsEv("C09Total") /\ LET e == Trace[l] IN
              Consume(Chk("C09.compute.panics-under-lock", e.panics, Len(e.panics) = 0) + Chk("C09.lock.left-held", "total", e.lockfree = 1))

\* C09Pure: a call that is not a setter leaves its receiver as it was (a digest of every accessor of the receiver,
\* taken before and after) and gives the same result when it is repeated
C09Pure ==
  /\ IsEv("C09Pure")
  /\ LET e == Trace[l]
     IN Consume(SumSeq(e.rows, LAMBDA r :
                  IF r[3] = "alone vs after the others"
                    \* an accessor called alone on a fresh object = the same accessor after all the others were called
                    THEN Chk("C09.pure.result-depends-on-earlier-accessors", << e.at, r[1], r[2] >>, r[4] = r[5] /\ r[6] = r[7])
                    ELSE IF r[3] = "written through"
                    \* what the accessors hand out belongs to the caller: writing through it does not reach the object
                    THEN Chk("C09.pure.handed-out-object-is-not-the-callers-own", << e.at, r[1] >>, r[4] = r[5])
                    ELSE Chk("C09.pure.call-changes-its-receiver", << e.at, r[1], r[2], r[3] >>, r[4] = r[5])
                         + Chk("C09.pure.same-call-different-result", << e.at, r[1], r[2], r[3] >>, r[6] = r[7])))

\* C09Orders: the same battery of lookups and conversions executed by several processes, each in its own order;
\* one digest per family and process (over the results in canonical key order): all processes agree
C09Orders ==
  /\ IsEv("C09Orders")
  /\ LET e == Trace[l]
         P == e.procs
     IN Consume(Chk("C09.orders.processes", Len(P), Len(P) >= 3)
                + SumN(Len(P), LAMBDA i :
                    Chk("C09.result.independent-of-call-order", << P[1].mode, P[i].mode,
                          { P[i].fam[k][1] : k \in { k \in 1..Len(P[i].fam) : k > Len(P[1].fam) \/ P[i].fam[k] # P[1].fam[k] } } >>,
                        P[i].fam = P[1].fam)))

TraceInit == KitInit
\* the first use of any part of the library made by many goroutines at once (fresh process, goroutines released together
\* before every accessor) against the same accessors run afterwards by one goroutine on fresh objects
C09First ==
  /\ IsEv("C09First")
  /\ LET e == Trace[l]
     IN Consume(SumSeq(e.rows, LAMBDA r :
                  Chk("C09.result.independent-of-concurrent-first-use", << e.shard, e.day, r[1], r[4] >>, r[2] = r[3]))
                + Chk("C09.lock.left-held", << "first-use", e.shard >>, e.lockfree = 1))

\* probes before and after a series of calls that panic on invalid input and are recovered: every probe returns
\* (within its deadline) and returns what it returned before
C09Block ==
  /\ IsEv("C09Block")
  /\ LET e == Trace[l]
     IN Consume(SumSeq(e.rows, LAMBDA r :
                  Chk("C09.blocked-after-a-recovered-panic", << r[1], e.panics >>, r[4] = 0)
                  + (IF r[4] = 0 THEN Chk("C09.result.independent-of-history", << "after-recovered-panics", r[1], r[2], r[3] >>, r[2] = r[3]) ELSE 0))
                + Chk("C09.lock.left-held", "after-recovered-panics", e.lockfree = 1))

TraceNext == C09Block \/ C09First \/ C09Orders \/ C09Run \/ C09Hist \/ C09Stress \/ C09Race \/ C09Total \/ C09Pure
TraceSpec == TraceInit /\ [][TraceNext]_tvars
=============================================================================
