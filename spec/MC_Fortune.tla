----------------------------- MODULE MC_Fortune -----------------------------
(***************************************************************************)
(* The start-offset arithmetic of Fortune.tla.  mode "m": a cursor over    *)
(* every minute distance 0..46080 (32 days): school 2 stays in range and   *)
(* converts back exactly.  mode "d": pairs of instants up to 32 days apart *)
(* on a half-hour grid: school 1 stays in range and never differs from     *)
(* school 2 by more than one slot's worth (ten fortune-days).              *)
(***************************************************************************)
EXTENDS Fortune, TLC
VARIABLES mode, x, y, z
vars == << mode, x, y, z >>
Init == \/ (mode = "m" /\ x = 0 /\ y = 0 /\ z = 0)
        \/ (mode = "d" /\ x \in 0..31 /\ y \in 0..47 /\ z \in 0..47)
Next == mode = "m" /\ x < 46080 /\ x' = x + 1 /\ UNCHANGED << mode, y, z >>
Spec == Init /\ [][Next]_vars
School2 == mode = "m" => LET o == OffsetSchool2(x) IN
             /\ OffsetInRange(o) /\ o[4] % 2 = 0
             /\ o[1] * 4320 + o[2] * 360 + o[3] * 12 + (o[4] \div 2) = x
A == [jdn |-> 2451545, sod |-> y * 1800]
B == [jdn |-> 2451545 + x, sod |-> z * 1800 + 899]
FDays(o) == o[1] * 360 + o[2] * 30 + o[3]
AbsD(n) == IF n < 0 THEN -n ELSE n
School1 == (mode = "d" /\ (x > 0 \/ z >= y) /\ y < 46 /\ z < 46) =>
             LET o1 == OffsetSchool1(A, B)
                 o2 == OffsetSchool2(MinutesBetween(A, B))
             IN /\ OffsetInRange(o1) /\ o1[4] = 0 /\ o1[3] % 10 = 0
                /\ AbsD(FDays(o1) - FDays(o2)) <= 10
Direction == /\ Forward(0, 1) /\ ~Forward(0, 0) /\ ~Forward(1, 1) /\ Forward(1, 0) /\ Forward(8, 1) /\ Forward(9, 0)
Spans == LET s0 == DaYunSpan(0, 2000, 2007) s1 == DaYunSpan(1, 2000, 2007) s2 == DaYunSpan(2, 2000, 2007)
         IN s0 = << 2000, 2006, 1, 7 >> /\ s1 = << 2007, 2016, 8, 17 >> /\ s2[1] = s1[2] + 1 /\ s2[3] = s1[4] + 1
=============================================================================
