------------------------------ MODULE MC_Lunar ------------------------------
(***************************************************************************)
(* The lunar calendar as a cursor over the global chain of months.  The    *)
(* year tables are not written by hand: they are dumped from the code in   *)
(* /repo's current working tree (file named by env TABLES, one record      *)
(* [y, t] per year, runs of consecutive years = windows), so this model    *)
(* check is about the current tree.                                        *)
(*                                                                         *)
(* State: a window, a position (month of the window's chain, day).         *)
(* Actions: MonthNext(n), DayNext(n), Convert (civil -> lunar through the  *)
(* per-civil-year table, the route the library takes).                     *)
(***************************************************************************)
EXTENDS Civil, LunarTable, TLC, Json, IOUtils
CONSTANTS MonthNs, DayNs, MaxDepth

Tables == ndJsonDeserialize(IOEnv.TABLES)
NT == Len(Tables)
YearAt(i) == Tables[i].y
TabAt(i) == [k \in 1..Len(Tables[i].t) |-> Row4(Tables[i].t[k])]
Starts == { i \in 1..NT : i = 1 \/ YearAt(i) # YearAt(i - 1) + 1 }
EndOf(a) == CHOOSE b \in a..NT : (b = NT \/ YearAt(b + 1) # YearAt(b) + 1) /\ \A k \in a..(b - 1) : YearAt(k + 1) = YearAt(k) + 1
RECURSIVE ChainFrom(_, _)
ChainFrom(a, b) == IF a > b THEN << >> ELSE InYear(TabAt(a), YearAt(a)) \o ChainFrom(a + 1, b)
\* the chain of a window leaves out its first year (whose predecessor table is not in the window)
\* constant-level tables, evaluated once by TLC at start-up (function application afterwards)
ChainOf == [a \in Starts |-> ChainFrom(a, EndOf(a))]
Chain(a) == ChainOf[a]
YearSet == { YearAt(i) : i \in 1..NT }
IdxOf == [y \in YearSet |-> CHOOSE i \in 1..NT : YearAt(i) = y]
TabOf == [i \in 1..NT |-> TabAt(i)]
IndexOfYear(y) == IdxOf[y]
HasYear(y) == y \in YearSet

VARIABLES w, pos, day, depth, prev, act
vars == << w, pos, day, depth, prev, act >>
view == << w, pos, day, depth >>
C == Chain(w)
Cur == C[pos]
CurJdn == MJ(Cur) + day - 1
Init == /\ w \in Starts /\ pos \in 1..Len(Chain(w)) /\ day \in 1..MCnt(Chain(w)[pos])
        /\ depth = 0 /\ prev = << 0, 0, 0 >> /\ act = << "Init", 0 >>
Moved(op, n) == depth < MaxDepth /\ depth' = depth + 1 /\ w' = w /\ prev' = << MY(Cur), MM(Cur), day >> /\ act' = << op, n >>
\* the property exempts the reform years: no step that starts, ends or passes through one
Clear(a, b) == \A k \in (IF a < b THEN a ELSE b)..(IF a < b THEN b ELSE a) : ~Exempt(MY(C[k]))
MonthNext(n) == /\ pos + n \in 1..Len(C) /\ day = 1 /\ Clear(pos, pos + n)
                /\ pos' = pos + n /\ day' = 1 /\ Moved("MonthNext", n)
\* position of civil day j on the chain
PosOfJdn(j) == CHOOSE p \in 1..Len(C) : Contains(C[p], j)
OnChain(j) == j >= MJ(C[1]) /\ j < MJ(C[Len(C)]) + MCnt(C[Len(C)])
DayNext(n) == /\ OnChain(CurJdn + n) /\ Clear(pos, PosOfJdn(CurJdn + n))
              /\ pos' = PosOfJdn(CurJdn + n) /\ day' = CurJdn + n - MJ(C[pos']) + 1 /\ Moved("DayNext", n)
Next == (\E n \in MonthNs : MonthNext(n)) \/ (\E n \in DayNs : DayNext(n))
Spec == Init /\ [][Next]_vars

(***************************************************************************)
(* Invariants about the tables of the current tree.                        *)
(***************************************************************************)
Y == MY(Cur)
TY == TabOf[IndexOfYear(Y)]
WellFormed == ~Exempt(Y) => /\ Len(TY) = 15 /\ Contiguous(TY) /\ Lengths2930(TY)
                            /\ Numbering(InYear(TY, Y)) /\ LengthOK(InYear(TY, Y))
NeighboursAgree == (HasYear(Y + 1) /\ ~Exempt(Y) /\ ~Exempt(Y + 1)) => Agree(TY, TabOf[IndexOfYear(Y + 1)])
ChainContiguous == pos < Len(C) /\ ~Exempt(Y) /\ ~Exempt(MY(C[pos + 1])) => MJ(C[pos + 1]) = MJ(Cur) + MCnt(Cur)
\* the route the library takes: look the civil day up in the table of its civil year
CivilYear == YearOf(CurJdn)
ConvertOK == (HasYear(CivilYear) /\ ~Exempt(Y) /\ ~Exempt(CivilYear)) =>
               LET T == TabOf[IndexOfYear(CivilYear)]
               IN /\ UniqueMonth(T, CurJdn)
                  /\ ToLunar(T, CurJdn) = << MY(Cur), MM(Cur), day >>
                  /\ FromLunar(TY, Y, MM(Cur), day) = CurJdn
\* every civil day of a table's civil year is covered by that table (no zero month)
CoverOK == HasYear(CivilYear) => Covered(TabOf[IndexOfYear(CivilYear)], CurJdn)
StepLaws == [][ /\ act'[1] = "DayNext" => (MJ(C[pos']) + day' - 1 = CurJdn + act'[2])
                /\ act'[1] = "MonthNext" => pos' = pos + act'[2] ]_vars

MonthNsV == (-14..14) \ {0}
DayNsV == {-384, -354, -30, -29, -1, 1, 29, 30, 354, 384}
\* behaviour export: one line per edge, with the model's successor state
T0 == YmdOf(MJ(C[1]))
EmitEdge == depth = 0 \/
            PrintT(<< "EDGE", act[1], act[2], prev[1], prev[2], prev[3], MY(Cur), MM(Cur), day, MCnt(Cur), MJ(Cur) >>)
=============================================================================
