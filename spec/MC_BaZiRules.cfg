SPECIFICATION Spec
INVARIANTS TenGodsBijective Mirror StagesBijective Prosperous Grave MainHidden XunLaw Conception
CHECK_DEADLOCK FALSE
