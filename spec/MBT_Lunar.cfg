SPECIFICATION Spec
CONSTANTS
 MonthNs <- MonthNsV
 DayNs <- DayNsV
 MaxDepth = 1
INVARIANTS EmitEdge
CHECK_DEADLOCK FALSE
