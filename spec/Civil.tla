------------------------------- MODULE Civil -------------------------------
(***************************************************************************)
(* The civil (hybrid Julian / Gregorian) calendar of lunar-go as integer   *)
(* arithmetic: validity, Julian Day Number, instants, stepping,            *)
(* comparisons, weeks / months / seasons / half-years / years, printed     *)
(* forms, zodiac and rule-based festivals.                                 *)
(*                                                                         *)
(* Written from the calendar rules, not from the library's float code.    *)
(* An instant is the pair (jdn, sod): Julian Day Number of the civil day  *)
(* (the integer that the astronomical JD takes at noon) and second of day. *)
(* TLC integers are 32 bit, so seconds-since-epoch are never formed.       *)
(***************************************************************************)
EXTENDS Integers, Sequences, FiniteSets

MinYear == 1
MaxYear == 9999
GregStartJdn == 2299161          \* 1582-10-15, first Gregorian day
JdnMin == 1721424                \* 0001-01-01 (Julian)
JdnMax == 5373484                \* 9999-12-31 (Gregorian)

Mod(a, b) == a % b               \* TLA+ % is the mathematical modulus for b > 0
Div(a, b) == a \div b            \* floor division
Abs(a) == IF a < 0 THEN -a ELSE a
Sign(a) == IF a < 0 THEN -1 ELSE IF a > 0 THEN 1 ELSE 0

(***************************************************************************)
(* Leap years, month lengths, validity.                                    *)
(***************************************************************************)
IsLeap(y) == IF y <= 1582 THEN y % 4 = 0
             ELSE (y % 4 = 0 /\ y % 100 # 0) \/ y % 400 = 0

\* highest day NUMBER of the month (31 for 1582-10 although only 21 days exist)
LastDay(y, m) == CASE m \in {1, 3, 5, 7, 8, 10, 12} -> 31
                   [] m \in {4, 6, 9, 11} -> 30
                   [] m = 2 -> IF IsLeap(y) THEN 29 ELSE 28

InGap(y, m, d) == y = 1582 /\ m = 10 /\ d \in 5..14

\* number of civil days that exist in the month / year
DaysInMonth(y, m) == IF y = 1582 /\ m = 10 THEN 21 ELSE LastDay(y, m)
DaysInYear(y) == IF y = 1582 THEN 355 ELSE IF IsLeap(y) THEN 366 ELSE 365

ValidYmd(y, m, d) == /\ m \in 1..12
                     /\ d >= 1 /\ d <= LastDay(y, m)
                     /\ ~InGap(y, m, d)
ValidHms(h, mi, s) == h \in 0..23 /\ mi \in 0..59 /\ s \in 0..59
ValidDateTime(y, m, d, h, mi, s) == ValidYmd(y, m, d) /\ ValidHms(h, mi, s)

(***************************************************************************)
(* Julian Day Number (integer; the day that contains noon JD = jdn).       *)
(***************************************************************************)
IsGregorianYmd(y, m, d) == y > 1582 \/ (y = 1582 /\ (m > 10 \/ (m = 10 /\ d >= 15)))

JDN(y, m, d) ==
  LET a  == (14 - m) \div 12
      yy == y + 4800 - a
      mm == m + 12 * a - 3
      base == d + ((153 * mm + 2) \div 5) + 365 * yy + (yy \div 4)
  IN IF IsGregorianYmd(y, m, d)
       THEN base - (yy \div 100) + (yy \div 400) - 32045
       ELSE base - 32083

\* inverse (Richards); every intermediate < 2^31 for the supported range
YmdOf(j) ==
  LET c == IF j >= GregStartJdn
             THEN LET a == j + 32044
                      b == (4 * a + 3) \div 146097
                  IN a - ((146097 * b) \div 4)
             ELSE j + 32082
      b4 == IF j >= GregStartJdn THEN ((4 * (j + 32044) + 3) \div 146097) ELSE 0
      d == (4 * c + 3) \div 1461
      e == c - ((1461 * d) \div 4)
      mm == (5 * e + 2) \div 153
  IN << 100 * b4 + d - 4800 + (mm \div 10),     \* year
        mm + 3 - 12 * (mm \div 10),             \* month
        e - ((153 * mm + 2) \div 5) + 1 >>      \* day

YearOf(j)  == YmdOf(j)[1]
MonthOf(j) == YmdOf(j)[2]
DayOf(j)   == YmdOf(j)[3]

Weekday(j) == (j + 1) % 7                        \* 0 = Sunday
DayOfYear(y, m, d) == JDN(y, m, d) - JDN(y, 1, 1) + 1

Sod(h, mi, s) == h * 3600 + mi * 60 + s
HourOf(sod) == sod \div 3600
MinuteOf(sod) == (sod % 3600) \div 60
SecondOf(sod) == sod % 60

(***************************************************************************)
(* Instants and their order.                                               *)
(***************************************************************************)
Inst(j, sod) == [jdn |-> j, sod |-> sod]
InstOf(y, m, d, h, mi, s) == Inst(JDN(y, m, d), Sod(h, mi, s))
Before(a, b) == a.jdn < b.jdn \/ (a.jdn = b.jdn /\ a.sod < b.sod)
After(a, b) == Before(b, a)
Cmp(a, b) == IF Before(a, b) THEN -1 ELSE IF Before(b, a) THEN 1 ELSE 0

(***************************************************************************)
(* Stepping.                                                               *)
(***************************************************************************)
StepDay(a, n) == Inst(a.jdn + n, a.sod)

\* adding n hours keeps minute and second and moves the day by the carry
StepHour(a, n) ==
  LET h == HourOf(a.sod) + n
  IN Inst(a.jdn + (h \div 24), (h % 24) * 3600 + (a.sod % 3600))

\* month arithmetic on (year, month)
MonthIndex(y, m) == y * 12 + (m - 1)
YmOfIndex(k) == << k \div 12, (k % 12) + 1 >>

\* day-of-month rule shared by month and year stepping: clamp to the month
\* end; a day number that falls in the 1582 gap moves 10 days on.
LandDay(y, m, d) == IF y = 1582 /\ m = 10 /\ d \in 5..14 THEN d + 10
                    ELSE IF d > LastDay(y, m) THEN LastDay(y, m) ELSE d

StepMonthYmd(y, m, d, n) ==
  LET ym == YmOfIndex(MonthIndex(y, m) + n)
  IN << ym[1], ym[2], LandDay(ym[1], ym[2], d) >>

StepMonth(a, n) ==
  LET t == YmdOf(a.jdn)
      r == StepMonthYmd(t[1], t[2], t[3], n)
  IN Inst(JDN(r[1], r[2], r[3]), a.sod)

StepYear(a, n) ==
  LET t == YmdOf(a.jdn)
  IN Inst(JDN(t[1] + n, t[2], LandDay(t[1] + n, t[2], t[3])), a.sod)

DaysBetween(a, b) == b.jdn - a.jdn               \* whole civil days from a to b
\* minute difference as the library defines it: whole days * 1440 plus the
\* difference of the minute-of-day fields (seconds ignored)
MinutesBetween(a, b) == (b.jdn - a.jdn) * 1440 + ((b.sod \div 60) - (a.sod \div 60))

(***************************************************************************)
(* Nearest-second reading of a real-valued Julian Day given as             *)
(* jdn - 1/2 + (sod*1000 + ms)/86400000 : round half up, full carry.       *)
(***************************************************************************)
RoundMs(j, sod, ms) ==
  LET s2 == IF ms >= 500 THEN sod + 1 ELSE sod
  IN IF s2 >= 86400 THEN Inst(j + 1, s2 - 86400) ELSE Inst(j, s2)

(***************************************************************************)
(* Weeks.  start \in 0..6 is the weekday a week begins on.                 *)
(***************************************************************************)
WeekFirst(j, start) == j - ((Weekday(j) - start) % 7)
WeekDays(j, start) == [i \in 1..7 |-> WeekFirst(j, start) + i - 1]
\* 1 + number of week starts in (first, j]
WeekIndexFrom(first, j, start) == ((WeekFirst(j, start) - WeekFirst(first, start)) \div 7) + 1
WeekIndexInMonth(y, m, d, start) == WeekIndexFrom(JDN(y, m, 1), JDN(y, m, d), start)
WeekIndexInYear(y, m, d, start) == WeekIndexFrom(JDN(y, 1, 1), JDN(y, m, d), start)
LastJdnOfMonth(y, m) == JDN(y, m, LastDay(y, m))
WeeksOfMonth(y, m, start) == WeekIndexFrom(JDN(y, m, 1), LastJdnOfMonth(y, m), start)
\* first day of the k-th week (1-based) meeting month (y, m)
WeekOfMonthFirst(y, m, k, start) == WeekFirst(JDN(y, m, 1), start) + 7 * (k - 1)

\* month-separated week walking: position (month index, week index); one
\* position per step along (month, 1..k), (next month, 1..k'), ...
RECURSIVE WalkWeeksFwd(_, _, _, _)
WalkWeeksFwd(mi, idx, n, start) ==
  IF n = 0 THEN << mi, idx >>
  ELSE LET ym == YmOfIndex(mi)
       IN IF idx < WeeksOfMonth(ym[1], ym[2], start)
            THEN WalkWeeksFwd(mi, idx + 1, n - 1, start)
            ELSE WalkWeeksFwd(mi + 1, 1, n - 1, start)
RECURSIVE WalkWeeksBack(_, _, _, _)
WalkWeeksBack(mi, idx, n, start) ==
  IF n = 0 THEN << mi, idx >>
  ELSE IF idx > 1 THEN WalkWeeksBack(mi, idx - 1, n - 1, start)
       ELSE LET ym == YmOfIndex(mi - 1)
            IN WalkWeeksBack(mi - 1, WeeksOfMonth(ym[1], ym[2], start), n - 1, start)
WalkWeeks(mi, idx, n, start) == IF n >= 0 THEN WalkWeeksFwd(mi, idx, n, start)
                                ELSE WalkWeeksBack(mi, idx, -n, start)

(***************************************************************************)
(* Months, seasons, half-years, years as units.                            *)
(***************************************************************************)
MonthDayList(y, m) ==            \* the jdn of each existing day, in order
  LET f == JDN(y, m, 1) IN [i \in 1..DaysInMonth(y, m) |-> f + i - 1]
SeasonIndex(m) == ((m - 1) \div 3) + 1
HalfYearIndex(m) == ((m - 1) \div 6) + 1
SeasonMonths(m) == [i \in 1..3 |-> 3 * (SeasonIndex(m) - 1) + i]
HalfYearMonths(m) == [i \in 1..6 |-> 6 * (HalfYearIndex(m) - 1) + i]

(***************************************************************************)
(* Printed forms as sequences of code points (TLC strings are atomic).     *)
(***************************************************************************)
Dg(k) == 48 + k
Fmt2(n) == << Dg((n \div 10) % 10), Dg(n % 10) >>
Fmt4(n) == << Dg((n \div 1000) % 10), Dg((n \div 100) % 10), Dg((n \div 10) % 10), Dg(n % 10) >>
FmtYmd(y, m, d) == Fmt4(y) \o <<45>> \o Fmt2(m) \o <<45>> \o Fmt2(d)
FmtYmdHms(y, m, d, h, mi, s) ==
  FmtYmd(y, m, d) \o <<32>> \o Fmt2(h) \o <<58>> \o Fmt2(mi) \o <<58>> \o Fmt2(s)
IsDigitCp(c) == c >= 48 /\ c <= 57
Num2(s, i) == (s[i] - 48) * 10 + (s[i + 1] - 48)
Num4(s, i) == (s[i] - 48) * 1000 + (s[i + 1] - 48) * 100 + (s[i + 2] - 48) * 10 + (s[i + 3] - 48)
WellFormedYmd(s) == /\ Len(s) = 10 /\ s[5] = 45 /\ s[8] = 45
                    /\ \A i \in {1, 2, 3, 4, 6, 7, 9, 10} : IsDigitCp(s[i])
WellFormedYmdHms(s) == /\ Len(s) = 19 /\ WellFormedYmd(SubSeq(s, 1, 10))
                       /\ s[11] = 32 /\ s[14] = 58 /\ s[17] = 58
                       /\ \A i \in {12, 13, 15, 16, 18, 19} : IsDigitCp(s[i])
ParseYmd(s) == << Num4(s, 1), Num2(s, 6), Num2(s, 9) >>
ParseYmdHms(s) == << Num4(s, 1), Num2(s, 6), Num2(s, 9), Num2(s, 12), Num2(s, 15), Num2(s, 18) >>
\* lexicographic order on equal-length code point sequences
RECURSIVE LexCmpFrom(_, _, _)
LexCmpFrom(s, t, i) == IF i > Len(s) \/ i > Len(t)
                         THEN (IF Len(s) < Len(t) THEN -1 ELSE IF Len(s) > Len(t) THEN 1 ELSE 0)
                         ELSE IF s[i] < t[i] THEN -1 ELSE IF s[i] > t[i] THEN 1
                         ELSE LexCmpFrom(s, t, i + 1)
LexCmp(s, t) == LexCmpFrom(s, t, 1)

(***************************************************************************)
(* Zodiac: 12 signs, index 0 = Aries ... 11 = Pisces; conventional first   *)
(* days as (month*100+day).                                                *)
(***************************************************************************)
ZodiacStart == << 321, 420, 521, 622, 723, 823, 923, 1024, 1123, 1222, 120, 219 >>
\* the sign of (m, d): the sign whose start is the latest start <= md in the
\* cyclic year (Capricorn wraps the new year)
ZodiacOf(m, d) ==
  LET md == m * 100 + d
      cands == {i \in 1..12 : ZodiacStart[i] <= md}
  IN IF cands = {} THEN 9        \* before Jan 20: Capricorn (started Dec 22)
     ELSE LET best == CHOOSE i \in cands : \A k \in cands : ZodiacStart[k] <= ZodiacStart[i]
          IN best - 1

(***************************************************************************)
(* Rule-based festivals: k-th weekday w of month m; last weekday w.        *)
(***************************************************************************)
\* occurrences are counted over the days that exist (matters in 1582-10)
SameWeekdayDays(y, m, d) == {x \in 1..LastDay(y, m) : ValidYmd(y, m, x) /\ Weekday(JDN(y, m, x)) = Weekday(JDN(y, m, d))}
OccurrenceNo(y, m, d) == Cardinality({x \in SameWeekdayDays(y, m, d) : x <= d})
IsKthWeekday(y, m, d, k, w) == Weekday(JDN(y, m, d)) = w /\ OccurrenceNo(y, m, d) = k
IsLastWeekday(y, m, d, w) == Weekday(JDN(y, m, d)) = w /\ \A x \in SameWeekdayDays(y, m, d) : x <= d
=============================================================================
