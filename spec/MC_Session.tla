---------------------------- MODULE MC_Session ------------------------------
(***************************************************************************)
(* Model of Session.tla: 2 date objects, 2 chart handles, 3 instants (the  *)
(* first of them on a day that fix-ups touch), 2 days, 4 fix-up records.   *)
(* MC_Session.cfg checks the frame conditions and the history invariants    *)
(* (no VIEW: every history is a state); MBT_Session.cfg prints each session of *)
(* MaxSteps calls, which bin/plans.py replays on real objects.             *)
(***************************************************************************)
EXTENDS Session, TLC
CONSTANTS MaxSteps
VARIABLES hist
vars == << live, of, holv, names, hist >>
MCInstDate(t) == IF t = 1 THEN 1 ELSE 0
Init == SInit /\ hist = << >>
Step(a, A) == Len(hist) < MaxSteps /\ A /\ hist' = Append(hist, a)
Next ==
  \/ \E o \in Objs, t \in Instants : Step(<< "Create", o, t >>, Create(o, t))
  \/ \E h \in Handles, o \in Objs : Step(<< "Handle", h, o >>, Handle(h, o))
  \/ \E h \in Handles, s \in {1, 2} : Step(<< "SetSect", h, s >>, SetSect(h, s))
  \/ \E k \in FixIds : Step(<< "Fix", k, 0 >>, Fix(k))
  \/ \E v \in {0, 1} : Step(<< "Rename", v, 0 >>, Rename(v))
  \/ \E n \in {1, 2} : Step(<< "Bad", n, 0 >>, Bad)
  \/ \E o \in Objs : Step(<< "Write", o, 0 >>, Write(o))
Spec == Init /\ [][Next]_vars
view == << live, of, holv, names, Len(hist) >>
\* the sect of an object equals the last SetSect through one of ITS handles (2 if none): the history decides it,
\* which is what "a view of the object" means
LastSect(o) ==
  LET RECURSIVE Run(_, _, _)
      \* i: position, hs: handles of o so far, s: sect so far
      Run(i, hs, s) ==
        IF i > Len(hist) THEN s
        ELSE LET a == hist[i]
             IN IF a[1] = "Handle" /\ a[3] = o THEN Run(i + 1, hs \cup {a[2]}, s)
                ELSE IF a[1] = "SetSect" /\ a[2] \in hs THEN Run(i + 1, hs, a[3])
                ELSE Run(i + 1, hs, s)
  IN Run(1, {}, 2)
SectIsLastSet == \A o \in Objs : live[o].t # 0 => live[o].sect = LastSect(o)
HolIsLastFix == \A d \in Dates :
  LET ks == { i \in 1..Len(hist) : hist[i][1] = "Fix" /\ FixDate(hist[i][2]) = d }
  IN holv[d] = IF ks = {} THEN 0 ELSE hist[CHOOSE i \in ks : \A j \in ks : j <= i][2]
NamesIsLastRename ==
  LET ks == { i \in 1..Len(hist) : hist[i][1] = "Rename" }
  IN names = IF ks = {} THEN 0 ELSE hist[CHOOSE i \in ks : \A j \in ks : j <= i][2]
EmitLeaf == Len(hist) < MaxSteps \/ PrintT(<< "EDGE", hist >>)
=============================================================================
