SPECIFICATION Spec
CONSTANTS
 Years <- YearsT
 Months = {1,2,3,9,10,11,12}
 Days = {1,9,10,28}
 Times <- TimesT
 LYears <- LYearsV
INVARIANTS ParseBack LunarParseBack
PROPERTIES OrderLaw
CHECK_DEADLOCK FALSE
