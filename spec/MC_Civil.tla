------------------------------ MODULE MC_Civil ------------------------------
(***************************************************************************)
(* Bounded-exhaustive model of the civil cursor: a caller holds an instant *)
(* and moves it with NextDay / NextHour / NextMonth / NextYear and the     *)
(* Julian-Day round trip.  One action per public call.                     *)
(* Used in two modes:                                                      *)
(*   MC  (cfg MC_Civil):  VIEW hides the history variables; invariants and *)
(*        action properties are checked in every reachable state.          *)
(*   MBT (cfg MBT_Civil): no VIEW; every distinct (prev, act, cur) edge is *)
(*        printed once and later executed against the real library.        *)
(***************************************************************************)
EXTENDS Civil, TLC

CONSTANTS MaxDepth, SeedSods, DayNs, HourNs, MonthNs, YearNs, FebYears, EndYears, GapSeeds

VARIABLES cur, depth, prev, act
vars == << cur, depth, prev, act >>
view == << cur, depth >>

SeedJdns ==
  (IF GapSeeds THEN JDN(1582, 9, 20)..JDN(1582, 11, 5) ELSE {})
  \cup UNION {JDN(y, 2, 24)..JDN(y, 3, 3) : y \in FebYears}
  \cup UNION {JDN(y, 12, 28)..JDN(y + 1, 1, 4) : y \in EndYears}

NoAct == [op |-> "Init", n |-> 0]
Init == /\ cur \in {Inst(j, s) : j \in SeedJdns, s \in SeedSods}
        /\ depth = 0 /\ prev = cur /\ act = NoAct

InRange(a) == a.jdn >= JdnMin /\ a.jdn <= JdnMax
Move(op, n, target) == /\ depth < MaxDepth
                       /\ InRange(target)
                       /\ cur' = target /\ depth' = depth + 1
                       /\ prev' = cur /\ act' = [op |-> op, n |-> n]

NextDay(n) == Move("NextDay", n, StepDay(cur, n))
NextHour(n) == Move("NextHour", n, StepHour(cur, n))
\* month / year stepping is only defined when the target year is in range
NextMonth(n) == LET ym == YmOfIndex(MonthIndex(YearOf(cur.jdn), MonthOf(cur.jdn)) + n)
                IN ym[1] \in MinYear..MaxYear /\ Move("NextMonth", n, StepMonth(cur, n))
NextYear(n) == (YearOf(cur.jdn) + n) \in MinYear..MaxYear /\ Move("NextYear", n, StepYear(cur, n))
\* civil -> Julian Day -> civil
JdRoundTrip == Move("JdRoundTrip", 0, cur)

Next == \/ \E n \in DayNs : NextDay(n)
        \/ \E n \in HourNs : NextHour(n)
        \/ \E n \in MonthNs : NextMonth(n)
        \/ \E n \in YearNs : NextYear(n)
        \/ JdRoundTrip
Spec == Init /\ [][Next]_vars

(***************************************************************************)
(* The library's day-stepping algorithm, transcribed (month walking with   *)
(* the 1582 renumbering), to check that the design agrees with the day     *)
(* count on everything reachable.                                          *)
(***************************************************************************)
RECURSIVE CodeFwd(_, _, _)
CodeFwd(y, m, d) == IF d > DaysInMonth(y, m)
                      THEN IF m = 12 THEN CodeFwd(y + 1, 1, d - DaysInMonth(y, m))
                           ELSE CodeFwd(y, m + 1, d - DaysInMonth(y, m))
                      ELSE << y, m, d >>
RECURSIVE CodeBack(_, _, _, _)
CodeBack(y, m, d, n) == IF d + n <= 0
                          THEN LET pm == IF m = 1 THEN 12 ELSE m - 1
                                   py == IF m = 1 THEN y - 1 ELSE y
                               IN CodeBack(py, pm, d + DaysInMonth(py, pm), n)
                          ELSE << y, m, d + n >>
CodeNextDay(y, m, d, n) ==
  LET d0 == IF y = 1582 /\ m = 10 /\ d > 4 THEN d - 10 ELSE d
      r == IF n > 0 THEN CodeFwd(y, m, d0 + n)
           ELSE IF n < 0 THEN CodeBack(y, m, d0, n) ELSE << y, m, d0 >>
  IN IF r[1] = 1582 /\ r[2] = 10 /\ r[3] > 4 THEN << r[1], r[2], r[3] + 10 >> ELSE r

(***************************************************************************)
(* Invariants (every reachable state).                                     *)
(***************************************************************************)
TypeOK == /\ cur.jdn \in JdnMin..JdnMax /\ cur.sod \in 0..86399
          /\ depth \in 0..MaxDepth
Ymd == YmdOf(cur.jdn)
ValidCursor == ValidYmd(Ymd[1], Ymd[2], Ymd[3]) /\ Ymd[1] \in MinYear..MaxYear
Inverse == JDN(Ymd[1], Ymd[2], Ymd[3]) = cur.jdn
NoGapDay == ~InGap(Ymd[1], Ymd[2], Ymd[3])
ASSUME Anchors == /\ JDN(1, 1, 1) = JdnMin /\ JDN(9999, 12, 31) = JdnMax
           /\ JDN(1582, 10, 4) + 1 = JDN(1582, 10, 15) /\ JDN(1582, 10, 15) = GregStartJdn
           /\ JDN(2000, 1, 1) = 2451545 /\ Weekday(2451545) = 6
           /\ Weekday(JDN(1582, 10, 4)) = 4 /\ Weekday(JDN(1582, 10, 15)) = 5
\* neighbours of the current day are consecutive valid dates
Successor == LET n == YmdOf(cur.jdn + 1)
             IN cur.jdn < JdnMax =>
                  /\ ValidYmd(n[1], n[2], n[3])
                  /\ \/ (n[1] = Ymd[1] /\ n[2] = Ymd[2] /\ n[3] = Ymd[3] + 1)
                     \/ (n[1] = Ymd[1] /\ n[2] = Ymd[2] /\ Ymd[3] = 4 /\ n[3] = 15 /\ Ymd[1] = 1582 /\ Ymd[2] = 10)
                     \/ (n[1] = Ymd[1] /\ n[2] = Ymd[2] + 1 /\ n[3] = 1 /\ Ymd[3] = LastDay(Ymd[1], Ymd[2]))
                     \/ (n[1] = Ymd[1] + 1 /\ n[2] = 1 /\ n[3] = 1 /\ Ymd[2] = 12 /\ Ymd[3] = 31)
OrdinalOK == DayOfYear(Ymd[1], Ymd[2], Ymd[3]) \in 1..DaysInYear(Ymd[1])

(***************************************************************************)
(* Action properties (every transition).                                   *)
(***************************************************************************)
PY == YmdOf(cur.jdn)
StepProps ==
  [][ /\ act'.op = "NextDay" =>
           /\ cur'.jdn = cur.jdn + act'.n /\ cur'.sod = cur.sod
           /\ Weekday(cur'.jdn) = (Weekday(cur.jdn) + act'.n) % 7
           /\ StepDay(cur', -act'.n) = cur                         \* undone by -n
           /\ YmdOf(cur'.jdn) = CodeNextDay(PY[1], PY[2], PY[3], act'.n)
      /\ act'.op = "NextHour" =>
           /\ (cur'.jdn - cur.jdn) * 24 + (HourOf(cur'.sod) - HourOf(cur.sod)) = act'.n
           /\ cur'.sod % 3600 = cur.sod % 3600
           /\ StepHour(cur', -act'.n) = cur
      /\ act'.op = "NextMonth" =>
           LET a == YmdOf(cur.jdn) b == YmdOf(cur'.jdn)
           IN /\ MonthIndex(b[1], b[2]) = MonthIndex(a[1], a[2]) + act'.n
              /\ cur'.sod = cur.sod
              /\ ValidYmd(b[1], b[2], b[3])
              /\ (ValidYmd(b[1], b[2], a[3]) => b[3] = a[3])       \* same day number when it exists
              /\ (b[3] # a[3] => (b[3] = LastDay(b[1], b[2]) \/ (InGap(b[1], b[2], a[3]) /\ b[3] = a[3] + 10)))
      /\ act'.op = "NextYear" =>
           LET a == YmdOf(cur.jdn) b == YmdOf(cur'.jdn)
           IN /\ b[1] = a[1] + act'.n /\ b[2] = a[2] /\ cur'.sod = cur.sod
              /\ ValidYmd(b[1], b[2], b[3])
              /\ (ValidYmd(b[1], b[2], a[3]) => b[3] = a[3])
      /\ act'.op = "JdRoundTrip" => cur' = cur
    ]_vars
\* ordering of instants is the ordering of (jdn, sod)
OrderProps == [][ (Before(cur, cur') <=> (cur.jdn < cur'.jdn \/ (cur.jdn = cur'.jdn /\ cur.sod < cur'.sod)))
                  /\ (Cmp(cur, cur') = -Cmp(cur', cur)) ]_vars

\* constant values for the configurations (cfg files cannot hold negative numbers)
DayNsV == {-366, -365, -31, -30, -10, -7, -1, 1, 7, 10, 30, 31, 365, 366}
HourNsV == {-49, -25, -24, -1, 1, 24, 25, 49}
MonthNsV == {-13, -12, -1, 1, 12, 13}
YearNsV == {-100, -4, -1, 1, 4, 100}
FebYearsV == {4, 100, 1500, 1582, 1600, 1700, 1900, 2000, 2100, 9996}
EndYearsV == {1, 1582, 1999, 9997}
SeedSodsV == {0, 43200, 86399}

(***************************************************************************)
(* MBT mode: print each edge once.                                         *)
(***************************************************************************)
EmitEdge == depth = 0 \/ PrintT(<< "EDGE", YearOf(prev.jdn), MonthOf(prev.jdn), DayOf(prev.jdn), prev.sod, act.op, act.n >>)
=============================================================================
