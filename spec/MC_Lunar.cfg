SPECIFICATION Spec
CONSTANTS
 MonthNs <- MonthNsV
 DayNs <- DayNsV
 MaxDepth = 1
VIEW view
INVARIANTS WellFormed NeighboursAgree ChainContiguous ConvertOK CoverOK
PROPERTIES StepLaws
CHECK_DEADLOCK FALSE
