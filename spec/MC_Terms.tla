------------------------------ MODULE MC_Terms ------------------------------
(***************************************************************************)
(* The lookup operators of Terms.tla on a synthetic table: entries 15 days *)
(* and 5 hours apart.  The cursor is a query moment placed before, at and  *)
(* after every entry (same second, one second either side, same day at     *)
(* 00:00:00 / 23:59:59, a week away).  Invariants: the previous term is     *)
(* at-or-before, the next term strictly after, nothing of the filter lies  *)
(* between them, whole-day variants compare days only.                     *)
(***************************************************************************)
EXTENDS Terms, TLC
VARIABLES q, F, whole
vars == << q, F, whole >>
Tab == [i \in 1..31 |-> [jdn |-> 2459000 + 15 * i + ((18000 * i) \div 86400), sod |-> (18000 * i) % 86400]]
Offsets == { << 0, 0 >>, << 0, -1 >>, << 0, 1 >>, << -7, 0 >>, << 7, 0 >>, << -1, 0 >>, << 1, 0 >> }
Moments == UNION { { [jdn |-> Tab[i].jdn + o[1], sod |-> IF Tab[i].sod + o[2] \in 0..86399 THEN Tab[i].sod + o[2] ELSE Tab[i].sod] : o \in Offsets }
                   \cup { [jdn |-> Tab[i].jdn, sod |-> 0], [jdn |-> Tab[i].jdn, sod |-> 86399] } : i \in 1..31 }
Init == q \in Moments /\ F \in {"jie", "qi", "all"} /\ whole \in BOOLEAN
Next == q' \in Moments /\ F' = F /\ whole' = whole /\ FALSE   \* the state space is the set of initial states
Spec == Init /\ [][Next]_vars
P == PrevPos(Tab, q, F, whole)
N == NextPos(Tab, q, F, whole)
PrevLaw == P # 0 => /\ InFilter(F, P) /\ AtOrBefore(Tab, P, q, whole)
                    /\ \A i \in 1..31 : (InFilter(F, i) /\ AtOrBefore(Tab, i, q, whole)) => i <= P
NextLaw == N # 0 => /\ InFilter(F, N) /\ StrictlyAfter(Tab, N, q, whole)
                    /\ \A i \in 1..31 : (InFilter(F, i) /\ StrictlyAfter(Tab, i, q, whole)) => i >= N
Adjacent == (P # 0 /\ N # 0) => /\ P < N /\ \A i \in (P + 1)..(N - 1) : ~InFilter(F, i)
\* a term at the query instant itself is the previous one, never the next one
AtInstant == \A i \in 1..31 : (q = Tab[i] /\ InFilter(F, i)) => (P = i /\ N # i)
NoneOnlyAtEnds == /\ (P = 0) => \A i \in 1..31 : InFilter(F, i) => ~AtOrBefore(Tab, i, q, whole)
                  /\ (N = 0) => \A i \in 1..31 : InFilter(F, i) => ~StrictlyAfter(Tab, i, q, whole)
OfDay == LET d == OfDayPos(Tab, q.jdn, F) IN d # 0 => Tab[d].jdn = q.jdn /\ InFilter(F, d)
TableLaws == StrictlyIncreasing(Tab) /\ SpacingOK(Tab) /\ \A i \in 1..31 : TermLon(i) = (TermLon(1) + 15 * (i - 1)) % 360
Names == /\ TermName31(1) = "大雪" /\ TermName31(2) = "冬至" /\ TermName31(5) = "立春" /\ TermName31(31) = "惊蛰"
         /\ TermLon(2) = 270 /\ TermLon(5) = 315 /\ TermLon(8) = 0 /\ TermLon(14) = 90
         /\ IsJiePos(1) /\ ~IsJiePos(2) /\ IsJiePos(5)
=============================================================================
