SPECIFICATION Spec
INVARIANTS YearLaws DayLaws HourLaws
PROPERTIES DaySteps
CHECK_DEADLOCK FALSE
