SPECIFICATION Spec
CONSTANTS
 Procs <- ProcsV
 Years <- YearsV
 BadYears <- OneBad
 CallsPerProc = 2
 LazyEightChar = FALSE
INVARIANTS MutualExclusion CacheComplete ResultCorrect NoLockLeak
CHECK_DEADLOCK FALSE
