SPECIFICATION Spec
CONSTANTS MaxCalls = 2
INVARIANTS EmitLeaf
CHECK_DEADLOCK FALSE
