------------------------------ MODULE Fortune ------------------------------
(***************************************************************************)
(* Fortune periods (运): direction, start offset under the two schools,    *)
(* great-fortune decades, annual, monthly and minor fortunes.              *)
(***************************************************************************)
EXTENDS Integers, Sequences, Civil, GanZhi

\* forward exactly for yang-year males and yin-year females (gender 1 = male)
Forward(yearStem, gender) == (yearStem % 2 = 0) = (gender = 1)
\* school 2: 4320 minutes = one year, 360 = one month, 12 = one day, 1 minute = two hours
OffsetSchool2(minutes) ==
  LET y == minutes \div 4320
      r1 == minutes - y * 4320
      m == r1 \div 360
      r2 == r1 - m * 360
      d == r2 \div 12
      r3 == r2 - d * 12
  IN << y, m, d, r3 * 2 >>
\* school 1: one day = four months, one two-hour slot = ten days (whole days and slots between the two moments)
SlotNo(sod) == HourBranch(sod)
OffsetSchool1(startI, endI) ==
  LET hd0 == SlotNo(endI.sod) - SlotNo(startI.sod)
      dd0 == endI.jdn - startI.jdn
      hd == IF hd0 < 0 THEN hd0 + 12 ELSE hd0
      dd == IF hd0 < 0 THEN dd0 - 1 ELSE dd0
      md == (hd * 10) \div 30
      months == dd * 4 + md
  IN << months \div 12, months % 12, hd * 10 - md * 30, 0 >>
OffsetInRange(o) == o[1] >= 0 /\ o[2] \in 0..11 /\ o[3] \in 0..29 /\ o[4] \in 0..23
\* the start of the fortune: birth + years, + months, + days, + hours, each step as the civil calendar defines it
StartInstant(birth, o) == StepHour(StepDay(StepMonth(StepYear(birth, o[1]), o[2]), o[3]), o[4])
\* great fortune i (0 = the years before the first decade)
DaYunSpan(i, birthYear, startYear) ==
  IF i = 0 THEN << birthYear, startYear - 1, 1, startYear - birthYear >>
  ELSE LET sy == startYear + 10 * (i - 1) IN << sy, sy + 9, sy - birthYear + 1, sy - birthYear + 10 >>
DaYunPillar(i, monthIdx, fwd) == IF fwd THEN (monthIdx + i) % 60 ELSE (monthIdx - i) % 60
\* monthly fortune k (0 = first month) of a year with pillar yp: five tigers
LiuYuePillar(yp, k) == PairIndex(FiveTigersStem(yp % 10, k), (k + 2) % 12)
XiaoYunPillar(hourIdx, age, fwd) == IF fwd THEN (hourIdx + age) % 60 ELSE (hourIdx - age) % 60
=============================================================================
