---------------------------- MODULE Trace_Almanac ----------------------------
(***************************************************************************)
(* Trace specification of the almanac family: C13 (seasonal counters),     *)
(* C16 (nine stars), C17 (Taoist / Buddhist dates), ...                    *)
(* Frames are self-contained: one civil year with its term table.          *)
(***************************************************************************)
EXTENDS Civil, NineStar, Religious, TraceKit

tvars == << l, rej >>
SeqSet(s) == { s[i] : i \in 1..Len(s) }
TabOf31(tab) == [i \in 1..Len(tab) |-> [jdn |-> JDN(tab[i][2], tab[i][3], tab[i][4]), sod |-> Sod(tab[i][5], tab[i][6], tab[i][7])]]
TabShapeOK(tab) == Len(tab) = 31 /\ \A i \in 1..Len(tab) : Len(tab[i]) = 7 /\ tab[i][1] = TermKeys31[i]
                   /\ ValidDateTime(tab[i][2], tab[i][3], tab[i][4], tab[i][5], tab[i][6], tab[i][7])
JD3(d) == JDN(d[1], d[2], d[3])

(***************************************************************************)
(* C13Year                                                                 *)
(***************************************************************************)
FuName == << "初伏", "中伏", "末伏" >>
C13Checks(e) ==
  LET y == e.y
      T == TabOf31(e.tab)
      R == e.rows
      n == Len(R)
  IN IF e.p # 0 THEN Chk("C13.year.panic", y, FALSE)
     ELSE IF ~TabShapeOK(e.tab) THEN Chk("C13.table.shape", y, FALSE)
     ELSE
       Chk("C13.fu.middle-is-10-or-20-days", << y, FuMiddleLength(T) >>, FuMiddleLength(T) \in {10, 20})
       + SumN(n, LAMBDA i :
           LET x == R[i]
               J == JD3(x.d)
               k == x.d
           IN IF x.x = 1 THEN 0
              ELSE IF x.p # 0 THEN Chk("C13.day.panic", k, FALSE)
              ELSE
                (IF InShuJiu(T, J)
                   THEN Chk("C13.shuJiu", << k, x.sj >>, Len(x.sj) = 4 /\ x.sj[1] = StarNumber[ShuJiuGroup(T, J)] \o "九" /\ x.sj[2] = ShuJiuDay(T, J) /\ x.sj[3] = x.sj[1])
                   ELSE Chk("C13.shuJiu.absent", << k, x.sj >>, Len(x.sj) = 0))
                + (LET fu == FuOf(T, J)
                   IN IF fu[1] = 0 THEN Chk("C13.fu.absent", << k, x.fu >>, Len(x.fu) = 0)
                      ELSE Chk("C13.fu", << k, x.fu, fu >>, Len(x.fu) = 4 /\ x.fu[1] = FuName[fu[1]] /\ x.fu[2] = fu[2] /\ x.fu[3] = x.fu[1]))
                + Chk("C13.hou", << k, x.hou >>, x.hou = TermName31(TermInForce(T, J)) \o " " \o HouName[PentadOf(T, J) + 1])
                + Chk("C13.wuHou", << k, x.wh >>, x.wh = WuHouIndex(T, J))
                \* New Year's Eve: exactly the last day of the lunar year (the next civil day starts the next lunar year)
                + (IF i < n /\ R[i + 1].p = 0
                     THEN Chk("C13.chuXi", << k, x.l, x.f >>, ("除夕" \in SeqSet(x.f)) <=> (R[i + 1].l[1] # x.l[1]))
                     ELSE 0)
                \* extension (outside C13): the traditional festivals on fixed lunar dates
                + SumSeq(SetToSeq(LunarFixedFestivals), LAMBDA q :
                    Chk("EXT.lunar.fixed-date-festival", << k, x.l, q[3] >>, (q[3] \in SeqSet(x.f)) <=> (x.l[2] = q[1] /\ x.l[3] = q[2])))
                + Chk("C13.hanShi", << k, x.o >>, ("寒食节" \in SeqSet(x.o)) <=> (J = HanShiDay(T)))
                + Chk("C13.chunShe", << k, x.o >>, ("春社" \in SeqSet(x.o)) <=> (J = SheDay(T, PosLiChun)))
                + Chk("C13.qiuShe", << k, x.o >>, ("秋社" \in SeqSet(x.o)) <=> (J = SheDay(T, PosLiQiu))))
C13Year == IsEv("C13Year") /\ Consume(C13Checks(Trace[l]))

(***************************************************************************)
(* C16Year                                                                 *)
(***************************************************************************)
IsJieDay(T, j) == \E p \in JiePositions : T[p].jdn = j
C16Checks(e) ==
  LET y == e.y
      T == TabOf31(e.tab)
      R == e.rows
      n == Len(R)
      w0s == { NearestJiaZi(T[PosDongZhiPrev].jdn), NearestJiaZiAlt(T[PosDongZhiPrev].jdn) }
      ss == { NearestJiaZi(T[PosXiaZhi].jdn), NearestJiaZiAlt(T[PosXiaZhi].jdn) }
      w1s == { NearestJiaZi(T[PosDongZhi].jdn), NearestJiaZiAlt(T[PosDongZhi].jdn) }
      sps == { NearestJiaZi(JDN(e.pxz[1], e.pxz[2], e.pxz[3])), NearestJiaZiAlt(JDN(e.pxz[1], e.pxz[2], e.pxz[3])) }
      DayStars(j) == { DayStar(j, sp, w0, s, w1) : sp \in sps, w0 \in w0s, s \in ss, w1 \in w1s }
      JS == e.js
  IN IF e.p # 0 THEN Chk("C16.year.panic", y, FALSE)
     ELSE IF ~TabShapeOK(e.tab) THEN Chk("C16.table.shape", y, FALSE)
     ELSE
       \* all naming systems index the same star
       SumN(9, LAMBDA i :
         Chk("C16.names", << i - 1, e.names[i] >>,
             e.names[i] = << i - 1, StarNumber[i], StarColor[i], StarWuXing[i], StarPosition[i], StarBeiDou[i],
                            StarXuanKong[i], StarQiMen[i], StarTaiYi[i],
                            StarNumber[i] \o StarColor[i] \o StarWuXing[i] \o StarBeiDou[i] >>))
       \* the lunar-year object's year star (New-Year-based pillar year = the lunar year itself)
       + (IF Has(e, "lys") THEN SumSeq(e.lys, LAMBDA q : Chk("C16.yearStar.lunarYearObject", q, q[2] = YearStar(q[1]))) ELSE 0)
       + SumN(n, LAMBDA i :
           LET x == R[i]
               J == JD3(x.d)
               k == x.d
               noon == [jdn |-> J, sod |-> 43200]
           IN IF x.p # 0 THEN Chk("C16.day.panic", k, FALSE)
              ELSE
                Chk("C16.range", << k, x.ys, x.ms >>, (\A q \in 1..4 : x.ys[q] \in 0..8 /\ x.ms[q] \in 0..8) /\ (Has(x, "ds") => x.ds \in 0..8))
                + (IF x.x = 1 THEN 0
                   ELSE Chk("C16.yearStar.newYear", << k, x.ly, x.ys[1] >>, x.ys[1] = YearStar(x.ly))
                        + Chk("C16.yearStar.lichunDay", << k, x.ys[2] >>, x.ys[2] = YearStar(PillarYearByDay(y, J, T[PosLiChun])) /\ x.ys[4] = x.ys[2])
                        + Chk("C16.yearStar.lichunInstant", << k, x.ys[3] >>, x.ys[3] = YearStar(PillarYearByInstant(y, noon, T[PosLiChun])))
                        \* extension (outside C16, which only demands the step at each Jie): the classical anchoring of the month star -
                        \* the month that starts at Lichun is star eight in 子午卯酉 years, five in 辰戌丑未 years, two in 寅申巳亥 years
                        + (LET yp == PillarYearByDay(y, J, T[PosLiChun])
                               reached == [p \in 1..31 |-> ReachedByDay(T, p, J)]
                               km == MonthsSinceLichun(reached)
                               tri == << 7, 4, 1 >>
                               first == tri[((YearIdx(yp) % 12) % 3) + 1]
                           IN Chk("EXT.monthStar.classical-anchor", << k, x.ms[2] >>, x.ms[2] = (first - km) % 9))
                        \* January days before the winter anchor continue the descending run from the previous
                        \* summer's anchor; when that run is 240 days long the case is reported under its own name
                        + (IF J < NearestJiaZi(T[PosDongZhiPrev].jdn) /\ NearestJiaZi(T[PosDongZhiPrev].jdn) - NearestJiaZi(JDN(e.pxz[1], e.pxz[2], e.pxz[3])) = 240
                             THEN Chk("C16.dayStar.before-winter-anchor", << "descending-run-240", k, x.ds >>, x.ds \in DayStars(J))
                             ELSE Chk("C16.dayStar", << k, x.ds >>, x.ds \in DayStars(J))))
                \* month star: one step back at each Jie day, unchanged otherwise
                + (IF i < n /\ R[i + 1].p = 0
                     THEN LET nx == R[i + 1]
                              step == IF IsJieDay(T, J + 1) THEN 1 ELSE 0
                          IN Chk("C16.monthStar.lichunDay", << k, x.ms[2], nx.ms[2] >>, nx.ms[2] = (x.ms[2] - step) % 9 /\ x.ms[4] = x.ms[2])
                             \* convention 1 (year from lunar New Year): days on which that year changes are skipped; the
                             \* Lichun day is reported under its own name with the observed step in the key
                             + (IF nx.yz[1] # x.yz[1] THEN 0
                                ELSE IF J + 1 = T[PosLiChun].jdn
                                  THEN Chk("C16.monthStar.newYear.at-lichun-day", << "step", (nx.ms[1] - x.ms[1]) % 9, k >>, nx.ms[1] = (x.ms[1] - step) % 9)
                                  ELSE Chk("C16.monthStar.newYear", << k, x.ms[1], nx.ms[1] >>, nx.ms[1] = (x.ms[1] - step) % 9))
                     ELSE 0))
       \* instant-level convention: one second before / at / after each Jie instant
       + SumN(Len(JS), LAMBDA i :
           IF JS[i].p # 0 THEN Chk("C16.instant.panic", JS[i].at, FALSE)
           ELSE IF JS[i].ds = 0 /\ i > 1 /\ JS[i - 1].p = 0 /\ JS[i - 1].pos = JS[i].pos /\ JS[i - 1].ds = -1
             THEN Chk("C16.monthStar.jieInstant", << JS[i].at, JS[i - 1].m3, JS[i].m3 >>, JS[i].m3 = (JS[i - 1].m3 - 1) % 9)
                  + Chk("C16.yearStar.atInstant", << JS[i].at, JS[i - 1].y3, JS[i].y3 >>,
                        JS[i].y3 = (IF JS[i].pos = PosLiChun THEN (JS[i - 1].y3 - 1) % 9 ELSE JS[i - 1].y3))
           ELSE IF JS[i].ds = 1 /\ i > 1 /\ JS[i - 1].p = 0 /\ JS[i - 1].pos = JS[i].pos /\ JS[i - 1].ds = 0
             THEN Chk("C16.monthStar.afterInstant", << JS[i].at, JS[i - 1].m3, JS[i].m3 >>, JS[i].m3 = JS[i - 1].m3 /\ JS[i].y3 = JS[i - 1].y3)
           ELSE 0)
       \* hour star (hours 0..22; 23:00-23:59 is left open: the statement does not say whose day it is)
       + SumSeq(e.hs, LAMBDA h :
           IF h.p # 0 THEN Chk("C16.hour.panic", h.at, FALSE)
           ELSE LET J == JDN(h.at[1], h.at[2], h.at[3])
                    slot == HourBranch(Sod(h.at[4], h.at[5], h.at[6]))
                    exp == HourStar(DayIdx(J) % 12, HourAscending(T, J), slot)
                IN Chk("C16.hourStar", << h.at, h.ts, exp >>, h.ts = exp)
                   + Chk("C16.hourStar.lunarTime", << h.at, h.ts2, exp >>, h.ts2 = exp))
       \* a day asked again later (after the walk passed the year end) has the stars it had
       + SumSeq(e.again, LAMBDA a :
           IF a.p # 0 THEN Chk("C16.day.panic", a.d, FALSE)
           ELSE LET r == e.rows[a.i]
                IN Chk("C16.same-day-same-stars", << a.d, << a.ds, a.ys, a.ms >>, << r.ds, r.ys, r.ms >> >>,
                       a.i \in 1..Len(e.rows) /\ r.d = a.d /\ a.ds = r.ds /\ a.ys = r.ys /\ a.ms = r.ms))
C16Year == IsEv("C16Year") /\ Consume(C16Checks(Trace[l]))

(***************************************************************************)
(* C17Year                                                                 *)
(***************************************************************************)
AbsM(m) == IF m < 0 THEN -m ELSE m
B(v) == v = 1
C17Checks(e) ==
  LET R == e.rows
      n == Len(R)
  IN SumN(n, LAMBDA i :
       LET x == R[i]
           k == << x.c[1], x.c[2], x.c[3] >>
       IN IF x.p # 0 THEN Chk("C17.day.panic", k, FALSE)
          ELSE
            LET ly == x.l[1] lm == x.l[2] ld == x.l[3]
                md == << lm, ld >>
                P == x.pred
                ming == x.dgz[1] = 4
                an == x.dgz[2] = AnWuBranch[AbsM(lm)]
            IN IF ~(AbsM(lm) \in 1..12 /\ ld \in 1..30) THEN Chk("C17.lunar.fields-out-of-range", << k, x.l >>, FALSE) ELSE
               Chk("C17.tao.year-month-day", << k, x.l, x.t >>, x.t = << TaoYear(ly), lm, ld >>)
               + Chk("C17.foto.year-month-day", << k, x.l, x.f >>, x.f = << FotoYear(ly), lm, ld >>)
               + Chk("C17.tao.roundtrip", << k, x.t >>, x.pr = 0 /\ x.tr = x.t \o x.c)
               + Chk("C17.foto.roundtrip", << k, x.f >>, x.pr = 0 /\ x.fr = x.f \o x.c)
               + Chk("C17.predicate.panic", << k, P >>, \A q \in 1..14 : P[q] # 2)
               + (IF lm > 0
                    THEN Chk("C17.sanHui", << k, md >>, P[1] = 2 \/ (B(P[1]) <=> md \in SanHui))
                         + Chk("C17.sanYuan", << k, md >>, P[2] = 2 \/ (B(P[2]) <=> md \in SanYuan))
                         + Chk("C17.wuLa", << k, md >>, P[3] = 2 \/ (B(P[3]) <=> md \in WuLa))
                    ELSE 0)
               + Chk("C17.baJie", << k, x.jq >>, P[4] = 2 \/ (B(P[4]) <=> x.jq \in BaJieTerms))
               + Chk("C17.baHui", << k, x.dgz >>, P[5] = 2 \/ (B(P[5]) <=> << x.dgz[1], x.dgz[2] >> \in BaHuiPairs))
               + Chk("C17.mingWu", << k, x.dgz >>, P[6] = 2 \/ (B(P[6]) <=> ming))
               + Chk("C17.anWu", << k, md, x.dgz >>, P[7] = 2 \/ (B(P[7]) <=> an))
               + Chk("C17.wu", << k, md, x.dgz >>, P[8] = 2 \/ (B(P[8]) <=> (ming \/ an)))
               + Chk("C17.monthZhai", << k, md >>, P[9] = 2 \/ (B(P[9]) <=> lm \in {1, 5, 9}))
               + Chk("C17.yangGong", << k, md >>, P[10] = 2 \/ (B(P[10]) <=> << AbsM(lm), ld >> \in YangGongDays))
               + Chk("C17.zhaiShuoWang", << k, md >>, P[11] = 2 \/ (B(P[11]) <=> ld \in {1, 15}))
               + Chk("C17.zhaiSix", << k, md, x.mc >>, P[12] = 2 \/ (B(P[12]) <=> (ld \in ZhaiSixDays \/ (ld = 28 /\ x.mc < 30))))
               + Chk("C17.zhaiTen", << k, md >>, P[13] = 2 \/ (B(P[13]) <=> ld \in ZhaiTenDays))
               + Chk("C17.xiu.name", << k, x.xiu >>, x.xiu \in SeqSet(Xiu27))
               \* one mansion per day within a lunar month
               + (IF i < n /\ R[i + 1].p = 0 /\ R[i + 1].l[1] = ly /\ R[i + 1].l[2] = lm /\ x.xiu \in SeqSet(Xiu27) /\ R[i + 1].xiu \in SeqSet(Xiu27)
                    THEN Chk("C17.xiu.advances", << k, x.xiu, R[i + 1].xiu >>, Xiu27Index(R[i + 1].xiu) = (Xiu27Index(x.xiu) % 27) + 1)
                    ELSE 0))
     \* predicates that depend on (month, day) only: equal inputs, equal answers (within the year)
     + Chk("C17.functional-dependence", e.y,
           \A i \in 1..n, j \in 1..n : (R[i].p = 0 /\ R[j].p = 0 /\ R[i].l[2] = R[j].l[2] /\ R[i].l[3] = R[j].l[3])
              => (\A q \in {1, 2, 3, 9, 10, 11, 13, 14} : R[i].pred[q] = R[j].pred[q]))
C17Year == IsEv("C17Year") /\ Consume(C17Checks(Trace[l]))

TraceInit == KitInit
TraceNext == C13Year \/ C16Year \/ C17Year
TraceSpec == TraceInit /\ [][TraceNext]_tvars
=============================================================================
