SPECIFICATION Spec
INVARIANTS Equivalence Classes RatSlot SlotPillars RepInSlot
CHECK_DEADLOCK FALSE
