SPECIFICATION Spec
INVARIANTS School2 School1 Direction Spans
CHECK_DEADLOCK FALSE
