SPECIFICATION Spec
CONSTANTS Years <- YearsV
INVARIANTS InRange StartDay YearIndependent OncePerYear FixedOnce
PROPERTIES SignStep
CHECK_DEADLOCK FALSE
