SPECIFICATION Spec
INVARIANTS PrevLaw NextLaw Adjacent AtInstant NoneOnlyAtEnds OfDay TableLaws Names
CHECK_DEADLOCK FALSE
