------------------------------ MODULE Session ------------------------------
(***************************************************************************)
(* The library as ONE state machine, seen by a client that keeps objects.  *)
(*                                                                         *)
(* The other modules specify one family each (Civil, LunarTable, Cache,    *)
(* Holiday ...).  This one says what the whole mutable state of a process  *)
(* using the library is, and which public calls may change which part:     *)
(*                                                                         *)
(*   live[o]   a lunar date object: the instant it was built for and the   *)
(*             day-boundary convention (sect) of its eight-character chart *)
(*             - the chart is a VIEW of the date object: every             *)
(*             GetEightChar() of the same object is the same chart, so a   *)
(*             SetSect through one handle is seen through all of them and  *)
(*             by the date object's own pillar accessors;                  *)
(*   of[h]     which date object a chart handle belongs to;                *)
(*   holv[d]   the last fix-up applied to holiday day d (0 = built-in);    *)
(*   names     which list of festival names is in use (0 = built-in).      *)
(*                                                                         *)
(* Objects that accessors hand out (terms, stars, hour objects, counters)  *)
(* are NOT part of the state: they belong to the client, and writing       *)
(* through them (action Write) changes nothing.                            *)
(*                                                                         *)
(* The year-table cache (Cache.tla) is deliberately NOT part of this       *)
(* state: C09 says no result may depend on it.  An observation is a        *)
(* function of the abstract state named by its key (ChartKey, LunarKey,    *)
(* SolarKey, HolKey) and of nothing else: not of other objects, not of     *)
(* calls that panicked and were recovered, not of the order of creation.   *)
(* Trace_Session.tla checks exactly that against reference observations   *)
(* taken in a fresh state; MC_Session enumerates the sessions.             *)
(***************************************************************************)
EXTENDS Naturals, Sequences, FiniteSets

CONSTANTS NObj,        \* date objects a session may hold
          NHandle,     \* chart handles
          NInst,       \* instants an object can be built for
          NDate,       \* holiday days that fix-ups touch
          NFix         \* fix-up records; record k touches day FixDate(k)

Objs == 1..NObj
Handles == 1..NHandle
Instants == 1..NInst
Dates == 1..NDate
FixIds == 1..NFix
FixDate(k) == ((k - 1) % NDate) + 1
\* instant i lies on holiday day InstDate(i) (0 = on none of them); overridden by the model / the trace
CONSTANT InstDate(_)

VARIABLES live, of, holv, names

svars == << live, of, holv, names >>

TypeOK ==
  /\ live \in [Objs -> [t : 0..NInst, sect : {1, 2}]]
  /\ of \in [Handles -> 0..NObj]
  /\ holv \in [Dates -> 0..NFix]
  /\ names \in {0, 1}

SInit ==
  /\ live = [o \in Objs |-> [t |-> 0, sect |-> 2]]
  /\ of = [h \in Handles |-> 0]
  /\ holv = [d \in Dates |-> 0]
  /\ names = 0

\* o := NewSolar(instant).GetLunar(): a fresh object, chart convention 2 (the documented default)
Create(o, t) ==
  /\ live[o].t = 0
  /\ live' = [live EXCEPT ![o] = [t |-> t, sect |-> 2]]
  /\ UNCHANGED << of, holv, names >>

\* h := o.GetEightChar(): no state change except that the client now holds a handle
Handle(h, o) ==
  /\ of[h] = 0 /\ live[o].t # 0
  /\ of' = [of EXCEPT ![h] = o]
  /\ UNCHANGED << live, holv, names >>

\* h.SetSect(s): changes the object the handle is a view of, and nothing else
SetSect(h, s) ==
  /\ of[h] # 0
  /\ live' = [live EXCEPT ![of[h]].sect = s]
  /\ UNCHANGED << of, holv, names >>

\* HolidayUtil.Fix(record k): last writer wins for that day, all other days unchanged
Fix(k) ==
  /\ holv' = [holv EXCEPT ![FixDate(k)] = k]
  /\ UNCHANGED << live, of, names >>

\* HolidayUtil.Fix(list v of festival names, no records): every record is shown under the new list from now on
Rename(v) ==
  /\ names' = v
  /\ UNCHANGED << live, of, holv >>

\* a constructor call with invalid arguments that panics and is recovered by the client
Bad == UNCHANGED svars

\* the client calls every public setter of every object the accessors of o hand out (solar terms, stars, hour
\* objects, nine-day and dog-day counters ...): those objects are the client's own, no part of the state changes.
\* (The chart is not among them: it is a view of o, see SetSect.)
Write(o) ==
  /\ live[o].t # 0
  /\ UNCHANGED svars

SNext ==
  \/ \E o \in Objs, t \in Instants : Create(o, t)
  \/ \E h \in Handles, o \in Objs : Handle(h, o)
  \/ \E h \in Handles, s \in {1, 2} : SetSect(h, s)
  \/ \E k \in FixIds : Fix(k)
  \/ \E v \in {0, 1} : Rename(v)
  \/ Bad
  \/ \E o \in Objs : Write(o)

(***************************************************************************)
(* What each observation may depend on.                                    *)
(***************************************************************************)
HolOf(t) == IF t = 0 \/ InstDate(t) = 0 THEN 0 ELSE holv[InstDate(t)]
HolKey(d) == << d, holv[d], names >>                           \* HolidayUtil.GetHoliday(d)
SolarKey(o) == << live[o].t, HolOf(live[o].t) >>               \* every accessor of o.GetSolar() (pay rate reads the table)
LunarKey(o) == << live[o].t, live[o].sect, HolOf(live[o].t) >> \* every accessor of o (pillar accessors go through the chart)
ChartKey(h) == LunarKey(of[h])                                 \* every accessor of the chart behind handle h

\* two handles of one object are the same view
AliasAgree == \A h1, h2 \in Handles : (of[h1] # 0 /\ of[h1] = of[h2]) => ChartKey(h1) = ChartKey(h2)
\* a fresh object starts on convention 2 whatever happened to other objects before
DefaultSect == [][\A o \in Objs : (live[o].t = 0 /\ live'[o].t # 0) => live'[o].sect = 2]_svars
\* frame conditions: who may change what
ObjectsIsolated ==
  [][\A o \in Objs : live'[o] # live[o] =>
        \/ live[o].t = 0                                               \* it was created in this step
        \/ \E h \in Handles : of[h] = o /\ live'[o].t = live[o].t      \* or its sect was set through one of its handles
    ]_svars
HandlesStable == [][\A h \in Handles : of[h] # 0 => of'[h] = of[h]]_svars
FixLocal == [][\A d \in Dates : holv'[d] # holv[d] => \E k \in FixIds : FixDate(k) = d /\ holv'[d] = k]_svars
\* an observation key changes only by a step that names its object, one of its handles, or its day
KeysStable ==
  [][\A o \in Objs : (live[o].t # 0 /\ LunarKey(o)' # LunarKey(o)) =>
        \/ \E h \in Handles : of[h] = o /\ live'[o].sect # live[o].sect
        \/ (InstDate(live[o].t) # 0 /\ holv'[InstDate(live[o].t)] # holv[InstDate(live[o].t)])
    ]_svars
=============================================================================
