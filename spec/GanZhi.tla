------------------------------- MODULE GanZhi -------------------------------
(***************************************************************************)
(* Sexagenary pillars.  A pillar is an index 0..59 (stem = index mod 10,   *)
(* branch = index mod 12, so stem and branch always have equal parity).    *)
(* Anchors, stated independently of the library's constants:               *)
(*   2000-01-01 (JDN 2451545) is a 戊午 day (index 54);                      *)
(*   year 4 CE is a 甲子 year (index 0) => year pillar = (Y - 4) mod 60;     *)
(*   the month that begins at Lichun 1984 (甲子 year) is 丙寅 (index 2).      *)
(***************************************************************************)
EXTENDS Integers, Sequences, Terms

StemOf(k) == k % 10
BranchOf(k) == k % 12
\* the unique index 0..59 with the given stem and branch (equal parity required)
PairIndex(g, z) == CHOOSE k \in 0..59 : k % 10 = g /\ k % 12 = z
ValidPair(g, z) == g \in 0..9 /\ z \in 0..11 /\ g % 2 = z % 2

(* ---- day and hour ------------------------------------------------------ *)
DayIdx(jdn) == (jdn + 49) % 60
\* early-rat convention (sect 1): 23:00-23:59 already belongs to the next day
DayIdxEarlyRat(jdn, sod) == IF sod >= 82800 THEN (DayIdx(jdn) + 1) % 60 ELSE DayIdx(jdn)
\* late-rat convention (sect 2): the day changes at midnight
DayIdxLateRat(jdn, sod) == DayIdx(jdn)
HourBranch(sod) == (((sod \div 3600) + 1) \div 2) % 12
\* five-rats rule: the rat hour of a 甲/己 day is 甲子; the day stem is the early-rat one
HourStem(dayStemEarlyRat, hb) == ((dayStemEarlyRat % 5) * 2 + hb) % 10
HourIdx(jdn, sod) == PairIndex(HourStem(StemOf(DayIdxEarlyRat(jdn, sod)), HourBranch(sod)), HourBranch(sod))

(* ---- year --------------------------------------------------------------- *)
YearIdx(yp) == (yp - 4) % 60
\* the civil year whose pillar applies at a moment of civil year Y, given that year's Lichun
PillarYearByDay(Y, jdn, lichun) == IF jdn >= lichun.jdn THEN Y ELSE Y - 1
PillarYearByInstant(Y, t, lichun) == IF TLeq(lichun, t) THEN Y ELSE Y - 1

(* ---- month -------------------------------------------------------------- *)
\* T: the 31-entry table of civil year Y.  Jie sit at the odd positions: 1 (previous Daxue), 3 (Xiaohan),
\* 5 (Lichun), ..., 25 (Daxue), 27 (next Xiaohan: by the year 9997 it has drifted into December 31st of
\* the same civil year), 29 (next Lichun), 31.
JiePositions == { 1, 3, 5, 7, 9, 11, 13, 15, 17, 19, 21, 23, 25, 27, 29, 31 }
ReachedByDay(T, p, jdn) == T[p].jdn <= jdn
ReachedByInstant(T, p, t) == TLeq(T[p], t)
\* months since Lichun of the pillar year (0 = 寅 ... 10 = 子, 11 = 丑)
MonthsSinceLichun(reached) ==
  LET c == Cardinality({ p \in JiePositions : p >= 5 /\ reached[p] })
  IN IF reached[5] THEN c - 1 ELSE IF reached[3] THEN 11 ELSE 10
\* continuous 60-cycle: one step per Jie
MonthIdxOf(yp, k) == (2 + 12 * (yp - 1984) + k) % 60
MonthIdxByDay(Y, T, jdn) ==
  LET reached == [p \in 1..31 |-> ReachedByDay(T, p, jdn)]
  IN MonthIdxOf(PillarYearByDay(Y, jdn, T[5]), MonthsSinceLichun(reached))
MonthIdxByInstant(Y, T, t) ==
  LET reached == [p \in 1..31 |-> ReachedByInstant(T, p, t)]
  IN MonthIdxOf(PillarYearByInstant(Y, t, T[5]), MonthsSinceLichun(reached))
\* five-tigers rule: the 寅 month of a 甲/己 year is 丙寅, ...; month k after it adds k
FiveTigersStem(yearStem, k) == ((yearStem % 5) * 2 + 2 + k) % 10
=============================================================================
