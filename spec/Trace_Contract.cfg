SPECIFICATION TraceSpec
POSTCONDITION Done
CHECK_DEADLOCK FALSE
