SPECIFICATION Spec
CONSTANTS
  MaxDepth = 3
  SeedSods <- SeedSodsV
  DayNs <- DayNsV
  HourNs <- HourNsV
  MonthNs <- MonthNsV
  YearNs <- YearNsV
  FebYears <- FebYearsV
  EndYears <- EndYearsV
  GapSeeds = TRUE
VIEW view
INVARIANTS TypeOK ValidCursor Inverse NoGapDay Successor OrdinalOK
PROPERTIES StepProps OrderProps
CHECK_DEADLOCK FALSE
