----------------------------- MODULE LunarTable -----------------------------
(***************************************************************************)
(* The month table of a lunar year as the library publishes it: a sequence *)
(* of 15 consecutive months << year, month, dayCount, firstJdn >>, month   *)
(* negative for a leap month.  Well-formedness, the civil <-> lunar maps,  *)
(* agreement of neighbouring tables, the month walk.                       *)
(***************************************************************************)
EXTENDS Integers, Sequences, FiniteSets

MY(r) == r[1]
MM(r) == r[2]
MCnt(r) == r[3]
MJ(r) == r[4]
AbsMonth(m) == IF m < 0 THEN -m ELSE m
Key(r) == << r[1], r[2] >>
Row4(r) == << r[1], r[2], r[3], r[4] >>

Contains(r, j) == MJ(r) <= j /\ j < MJ(r) + MCnt(r)
Covered(T, j) == \E i \in 1..Len(T) : Contains(T[i], j)
IndexOfDay(T, j) == CHOOSE i \in 1..Len(T) : Contains(T[i], j)
UniqueMonth(T, j) == Cardinality({ i \in 1..Len(T) : Contains(T[i], j) }) = 1
ToLunar(T, j) == LET r == T[IndexOfDay(T, j)] IN << MY(r), MM(r), j - MJ(r) + 1 >>
HasMonth(T, y, m) == \E i \in 1..Len(T) : MY(T[i]) = y /\ MM(T[i]) = m
MonthRow(T, y, m) == T[CHOOSE i \in 1..Len(T) : MY(T[i]) = y /\ MM(T[i]) = m]
ValidLunar(T, y, m, d) == HasMonth(T, y, m) /\ d >= 1 /\ d <= MCnt(MonthRow(T, y, m))
FromLunar(T, y, m, d) == MJ(MonthRow(T, y, m)) + d - 1

InYear(T, y) == SelectSeq(T, LAMBDA r : MY(r) = y)
Contiguous(T) == \A i \in 1..(Len(T) - 1) : MJ(T[i + 1]) = MJ(T[i]) + MCnt(T[i])
Lengths2930(T) == \A i \in 1..Len(T) : MCnt(T[i]) \in {29, 30}
\* months 1..12 in order, at most one leap month, directly after the month whose number it repeats
Numbering(Y) ==
  /\ Len(Y) \in {12, 13}
  /\ MM(Y[1]) = 1
  /\ \A i \in 2..Len(Y) : \/ (MM(Y[i]) > 0 /\ MM(Y[i]) = AbsMonth(MM(Y[i - 1])) + 1)
                          \/ (MM(Y[i]) < 0 /\ MM(Y[i - 1]) > 0 /\ MM(Y[i]) = -MM(Y[i - 1]))
  /\ AbsMonth(MM(Y[Len(Y)])) = 12
  /\ Cardinality({ i \in 1..Len(Y) : MM(Y[i]) < 0 }) <= 1
RECURSIVE SumCnt(_, _)
SumCnt(Y, n) == IF n = 0 THEN 0 ELSE SumCnt(Y, n - 1) + MCnt(Y[n])
YearLength(Y) == SumCnt(Y, Len(Y))
LengthOK(Y) == YearLength(Y) \in (353..355) \cup (383..385)
LeapOf(Y) == LET L == { i \in 1..Len(Y) : MM(Y[i]) < 0 } IN IF L = {} THEN 0 ELSE -MM(Y[CHOOSE i \in L : TRUE])

\* two tables agree on every (year, month) they share
Agree(A, B) == \A i \in 1..Len(A), k \in 1..Len(B) : Key(A[i]) = Key(B[k]) => Row4(A[i]) = Row4(B[k])
\* and the later table continues the earlier one without a hole: the months of A that follow A's
\* last row that is also in B ... (the chain is fixed by contiguity of each table plus agreement)

\* successor / predecessor of the month at (y, m) using table T of year y and its neighbour N
\* (N = table of y+1 for the successor, of y-1 for the predecessor)
PosOf(T, y, m) == CHOOSE i \in 1..Len(T) : MY(T[i]) = y /\ MM(T[i]) = m
SuccIn(T, N, y, m) == LET i == PosOf(T, y, m)
                      IN IF i < Len(T) THEN Row4(T[i + 1])
                         ELSE LET k == PosOf(N, y, m) IN Row4(N[k + 1])
PredIn(T, P, y, m) == LET i == PosOf(T, y, m)
                      IN IF i > 1 THEN Row4(T[i - 1])
                         ELSE LET k == PosOf(P, y, m) IN Row4(P[k - 1])
(***************************************************************************)
(* The no-major-term leap rule, written from the rule (not from the code): *)
(* hs[i] = first day of month i of the table (i = 1..15), zq[k] = civil    *)
(* day of the k-th major term counted from the winter solstice (k = 1..13, *)
(* zq[13] = the next winter solstice).  A month contains a term when       *)
(* hs[i] <= zq[k] < hs[i+1].                                               *)
(***************************************************************************)
MonthHasTerm(hs, zq, i) == \E k \in 1..13 : hs[i] <= zq[k] /\ zq[k] < hs[i + 1]
\* 13 new moons between the two winter-solstice months <=> the second solstice falls in month 14
ThirteenMonths(hs, zq) == hs[14] <= zq[13]
LeapIndex(hs, zq) == IF ~ThirteenMonths(hs, zq) THEN 0
                     ELSE LET c == { i \in 2..13 : ~MonthHasTerm(hs, zq, i) }
                          IN IF c = {} THEN 0 ELSE CHOOSE i \in c : \A k \in c : i <= k
\* labels << year, signed month >> of months 1..n of the sui that starts with month 11 of year y-1
RECURSIVE SuiLabels(_, _, _)
SuiLabels(y, leap, n) ==
  IF n = 1 THEN << << y - 1, 11 >> >>
  ELSE LET prev == SuiLabels(y, leap, n - 1)
           p == prev[n - 1]
           num == IF n = leap THEN -AbsMonth(p[2]) ELSE (AbsMonth(p[2]) % 12) + 1
           yr == IF num = 1 THEN p[1] + 1 ELSE p[1]
       IN Append(prev, << yr, num >>)

\* the reform years the property exempts
Exempt(y) == y \in (8..23) \cup (236..240)
=============================================================================
