----------------------------- MODULE Trace_Civil -----------------------------
(***************************************************************************)
(* Trace specification of the civil family (C04, C07 civil part, C15, C19  *)
(* civil part, C20).  Each event kind is one action; chain events carry    *)
(* the cursor `cur` between lines, frames are self-contained.              *)
(***************************************************************************)
EXTENDS Civil, Forms, TraceKit

VARIABLES cur, aux
tvars == << l, rej, cur, aux >>

Fields(a) == LET t == YmdOf(a.jdn)
             IN << t[1], t[2], t[3], HourOf(a.sod), MinuteOf(a.sod), SecondOf(a.sod) >>
InYears(a) == a.jdn >= JdnMin /\ a.jdn <= JdnMax
ValidRes(r) == ValidDateTime(r[1], r[2], r[3], r[4], r[5], r[6])
InstOfRes(r) == InstOf(r[1], r[2], r[3], r[4], r[5], r[6])

Apply(op, a, n) == CASE op = "NextDay" -> StepDay(a, n)
                     [] op = "NextHour" -> StepHour(a, n)
                     [] op = "NextMonth" -> StepMonth(a, n)
                     [] op = "NextYear" -> StepYear(a, n)
                     [] op = "JdRoundTrip" -> a
                     \* conversions through the lunar / Taoist / Buddhist objects keep the instant
                     [] op \in {"LunarRound", "LunarCtor", "TaoCtor", "FotoCtor"} -> a
                     [] op = "LunarNext" -> StepDay(a, n)
\* is the target of the step inside the supported range (else no claim)
Defined(op, a, n) ==
  CASE op = "NextMonth" -> YmOfIndex(MonthIndex(YearOf(a.jdn), MonthOf(a.jdn)) + n)[1] \in MinYear..MaxYear
    [] op = "NextYear" -> (YearOf(a.jdn) + n) \in MinYear..MaxYear
    [] OTHER -> InYears(Apply(op, a, n))

(***************************************************************************)
(* C04Day: everything one civil day contributes.                           *)
(***************************************************************************)
C04DayChecks(e) ==
  LET key == << e.y, e.m, e.d >>
      J == JDN(e.y, e.m, e.d)
  IN IF ~ValidYmd(e.y, e.m, e.d) THEN 0          \* constructor outcome on non-dates is C07's clause
     ELSE IF e.p # 0 THEN Chk("C04.ctor.valid-date-rejected", key, FALSE)
     ELSE
       Chk("C04.weekday", key, e.wk = Weekday(J))
       + SumSeq(e.jd, LAMBDA x : Chk("C04.jd.value", << key, x[1] >>,
                                     x[2] = J /\ x[3] = x[1] /\ x[4] >= -60 /\ x[4] <= 60))
       + SumSeq(e.rt, LAMBDA x : Chk("C04.jd.roundtrip", << key, x[1] >>,
                                     x[2] = 0 /\ << x[3], x[4], x[5] >> = key
                                     /\ Sod(x[6], x[7], x[8]) = x[1]))
       + (IF Has(e, "fj") THEN
            SumSeq(e.fj, LAMBDA x :
              LET t == RoundMs(x[1], x[2], x[3])
              IN IF ~InYears(t) THEN 0
                 ELSE Chk("C04.fromjd", << key, x[2], x[3] >>,
                          x[4] = 0 /\ << x[5], x[6], x[7], x[8], x[9], x[10] >> = Fields(t)))
          ELSE 0)
       + SumSeq(e.pa, LAMBDA x :
           LET a == Inst(J, x[7])
               okO == ValidDateTime(x[1], x[2], x[3], x[4], x[5], x[6])
               b == InstOf(x[1], x[2], x[3], x[4], x[5], x[6])
               pk == << key, x[7], << x[1], x[2], x[3], x[4], x[5], x[6] >> >>
           IN IF ~okO THEN Chk("C04.partner.invalid", pk, FALSE)
              ELSE Chk("C04.cmp.panic", pk, x[8] = 0)
                   + Chk("C04.subtract", pk, x[9] = a.jdn - b.jdn)
                   + (IF x[11] = 1 THEN Chk("C04.subtractMinute", pk, x[10] = MinutesBetween(b, a)) ELSE 0)
                   + Chk("C04.isBefore", pk, (x[12] = 1) <=> Before(a, b))
                   + Chk("C04.isAfter", pk, (x[13] = 1) <=> After(a, b)))

C04Day == IsEv("C04Day") /\ Consume(C04DayChecks(Trace[l])) /\ UNCHANGED << cur, aux >>

(***************************************************************************)
(* Stepping, observed as an edge (stateless) or as a chain step (stateful).*)
(***************************************************************************)
StepChecks(tag, key, a, e) ==
  IF ~Defined(e.op, a, e.n) THEN 0
  ELSE LET t == Apply(e.op, a, e.n)
       IN IF e.p # 0 THEN Chk(tag \o ".panic", key, FALSE)
          ELSE Chk(tag \o ".result", << key, e.res >>, e.res = Fields(t))
               + Chk(tag \o ".valid", << key, e.res >>, ValidRes(e.res))
               \* chains also log the result's own Julian Day and the start as it reads after the call
               + (IF Has(e, "jd") THEN Chk(tag \o ".result-julian-day", << key, e.jd >>, e.jd = << t.jdn, t.sod >>) ELSE 0)
               + (IF Has(e, "st") THEN Chk(tag \o ".receiver-unchanged", << key, e.st >>, e.st = Fields(a)) ELSE 0)

C04Edge ==
  /\ IsEv("C04Edge")
  /\ LET e == Trace[l]
         key == << e.from, e.op, e.n >>
     IN Consume(IF e.p = 2 \/ ~ValidYmd(e.from[1], e.from[2], e.from[3])
                  THEN Chk("C04.edge.from-rejected", key, FALSE)
                  ELSE StepChecks("C04.edge." \o e.op, key, Inst(JDN(e.from[1], e.from[2], e.from[3]), e.from[4]), e))
  /\ UNCHANGED << cur, aux >>

C04Start ==
  /\ IsEv("C04Start")
  /\ LET e == Trace[l]
     IN /\ Consume(Chk("C04.chain.start", e.at, ValidRes(e.at)))
        /\ cur' = IF ValidRes(e.at) THEN InstOfRes(e.at) ELSE cur
        /\ UNCHANGED aux

C04Step ==
  /\ IsEv("C04Step")
  /\ LET e == Trace[l]
         key == << e.k, l, Fields(cur), e.op, e.n >>
     IN /\ Consume(StepChecks("C04.chain." \o e.op, key, cur, e))
        \* resynchronise on the observed state so the rest of the chain is still checked
        /\ cur' = IF e.p = 0 /\ ValidRes(e.res) THEN InstOfRes(e.res)
                  ELSE IF Defined(e.op, cur, e.n) THEN Apply(e.op, cur, e.n) ELSE cur
        /\ UNCHANGED aux

(***************************************************************************)
(* C07: constructors accept exactly what exists.                           *)
(***************************************************************************)
\* e.o[i] is the outcome (1 = panic) for day number i - 2, i.e. days -1..33
C07Civil ==
  /\ IsEv("C07Civil")
  /\ LET e == Trace[l]
     IN Consume(SumN(Len(e.o), LAMBDA i :
                  LET d == i - 2
                  IN Chk(IF e.o[i] = 1 THEN "C07.civil.rejected-existing-date" ELSE "C07.civil.accepted-nonexistent-date",
                         << e.y, e.m, d >>, (e.o[i] = 0) <=> ValidYmd(e.y, e.m, d))))
  /\ UNCHANGED << cur, aux >>

\* C07Trip: a civil day's lunar triple is accepted by the lunar constructor and leads back to that civil day
C07Trip ==
  /\ IsEv("C07Trip")
  /\ LET e == Trace[l]
     IN Consume(SumSeq(e.rows, LAMBDA r :
                  IF Len(r) # 10 \/ r[10] # 0
                    THEN Chk("C07.lunar.rejected-existing-date", << "trip", r >>, FALSE)
                    ELSE Chk("C07.lunar.civil-day", << "trip", r >>, << r[7], r[8], r[9] >> = << r[1], r[2], r[3] >>)))
  /\ UNCHANGED << cur, aux >>

C07Time ==
  /\ IsEv("C07Time")
  /\ LET e == Trace[l]
     IN Consume(SumSeq(e.t, LAMBDA x :
                  LET ok == ValidHms(x[1], x[2], x[3])
                      key == << e.y, e.m, e.d, x[1], x[2], x[3] >>
                  IN Chk("C07.civil.time-outcome", key, (x[4] = 0) <=> ok)
                     + (IF x[4] = 0 /\ Len(x) = 10
                          THEN Chk("C07.civil.fields", key, << x[5], x[6], x[7], x[8], x[9], x[10] >> = << e.y, e.m, e.d, x[1], x[2], x[3] >>)
                          ELSE 0)))
  /\ UNCHANGED << cur, aux >>

\* the lunar (year, month, day) triples that are the image of some civil day
C07Lunar ==
  /\ IsEv("C07Lunar")
  /\ LET e == Trace[l]
         okImg == \A i \in 1..Len(e.img) : e.img[i][4] = 0
         Img == { << x[6], x[7] >> : x \in { e.img[i] : i \in { k \in 1..Len(e.img) : e.img[k][4] = 0 /\ e.img[k][5] = e.y } } }
         \* civil day (jdn) of an image triple
         JdnOf(m, d) == LET x == CHOOSE z \in { e.img[i] : i \in 1..Len(e.img) } : z[4] = 0 /\ z[5] = e.y /\ z[6] = m /\ z[7] = d
                        IN JDN(x[1], x[2], x[3])
         \* accepted (month, day) pairs of a 26 x 32 outcome table (months -12..13, days 0..31)
         AccSet(rows) == { p \in { << m, d >> : m \in -12..13, d \in 0..31 } : rows[p[1] + 13][p[2] + 1] = 0 }
         Rows(name, rows) == LET acc == AccSet(rows)
                             IN Chk("C07." \o name \o ".rejected-existing-date", << e.y, Img \ acc >>, Img \ acc = {})
                                + Chk("C07." \o name \o ".accepted-nonexistent-date", << e.y, acc \ Img >>, acc \ Img = {})
     IN Consume(Chk("C07.lunar.image.panic", e.y, okImg)
                + Rows("lunar", e.lunar) + Rows("tao", e.tao) + Rows("foto", e.foto)
                + SumSeq(e.got, LAMBDA x :
                    LET key == << e.y, x[1], x[2] >>
                    IN Chk("C07.lunar.fields", key, << x[3], x[4], x[5], x[6], x[7], x[8] >> = << e.y, x[1], x[2], 7, 8, 9 >>)
                       + (IF << x[1], x[2] >> \in Img /\ ValidRes(<< x[9], x[10], x[11], x[12], x[13], x[14] >>)
                            THEN Chk("C07.lunar.civil-day", key, JDN(x[9], x[10], x[11]) = JdnOf(x[1], x[2]) /\ << x[12], x[13], x[14] >> = << 7, 8, 9 >>)
                            ELSE Chk("C07.lunar.civil-day", key, << x[1], x[2] >> \notin Img)))
                + SumSeq(e.t, LAMBDA x :
                    LET ok == ValidHms(x[1], x[2], x[3]) /\ << 1, 1 >> \in Img
                        key == << e.y, x[1], x[2], x[3] >>
                    IN Chk("C07.lunar.time-outcome", key, (x[4] = 0) <=> ok)
                       + Chk("C07.tao.time-outcome", key, (x[5] = 0) <=> ok)
                       + Chk("C07.foto.time-outcome", key, (x[6] = 0) <=> ok)))
  /\ UNCHANGED << cur, aux >>

C07Start ==
  /\ IsEv("C07Start")
  /\ LET e == Trace[l]
     IN /\ Consume(Chk("C07.chain.start", e.at, ValidRes(e.at)))
        /\ cur' = IF ValidRes(e.at) THEN InstOfRes(e.at) ELSE cur
        /\ UNCHANGED aux

\* shape of a lunar-side object met on the way (its exact validity against the
\* month tables is C01 / C06; here: no field outside its type)
LunarShape(x, a) == /\ (x[2] \in 1..12 \/ -x[2] \in 1..12) /\ x[3] \in 1..30
                    /\ Sod(x[4], x[5], x[6]) = a.sod
C07Step ==
  /\ IsEv("C07Step")
  /\ LET e == Trace[l]
         key == << e.k, l, Fields(cur), e.op, e.n >>
         t == IF Defined(e.op, cur, e.n) THEN Apply(e.op, cur, e.n) ELSE cur
     IN /\ Consume(StepChecks("C07.chain." \o e.op, key, cur, e)
                   + (IF e.p = 0 /\ Len(e.lun) = 6 /\ Defined(e.op, cur, e.n)
                        THEN Chk("C07.chain.lunar-shape", << key, e.lun >>, LunarShape(e.lun, t)) ELSE 0))
        /\ cur' = IF e.p = 0 /\ ValidRes(e.res) THEN InstOfRes(e.res)
                  ELSE IF Defined(e.op, cur, e.n) THEN Apply(e.op, cur, e.n) ELSE cur
        /\ UNCHANGED aux

(***************************************************************************)
(* C15: civil weeks / months / seasons / half-years / years.               *)
(***************************************************************************)
Y3(j) == YmdOf(j)
WeekObsChecks(w, s, ctx) ==
  LET f == w.f
      J == JDN(f[1], f[2], f[3])
      key == << ctx, f, s >>
      wd == WeekDays(J, s)
      exp7 == [i \in 1..7 |-> Y3(wd[i])]
      inM == SelectSeq(exp7, LAMBDA t : t[2] = f[2] /\ t[1] = f[1])
  IN IF ~ValidYmd(f[1], f[2], f[3]) THEN Chk("C15.week.fields-invalid", key, FALSE)
     ELSE Chk("C15.week.index", key, w.idx = << 0, WeekIndexInMonth(f[1], f[2], f[3], s) >>)
          + Chk("C15.week.indexInYear", key, w.idy = << 0, WeekIndexInYear(f[1], f[2], f[3], s) >>)
          + Chk("C15.week.firstDay", key, w.first = << 0 >> \o Y3(WeekFirst(J, s)))
          + Chk("C15.week.days", key, w.pdays = 0 /\ w.days = exp7)
          + Chk("C15.week.daysInMonth", key, w.pdim = 0 /\ w.dim = inM)
          + Chk("C15.week.firstDayInMonth", key, w.fim = << 0 >> \o inM[1])

C15Month ==
  /\ IsEv("C15Month")
  /\ LET e == Trace[l]
         key == << e.y, e.m, e.s >>
         n == WeeksOfMonth(e.y, e.m, e.s)
         mdl == MonthDayList(e.y, e.m)
     IN Consume(
          (IF Has(e, "days") THEN Chk("C15.month.days", key, e.days = [i \in 1..Len(mdl) |-> Y3(mdl[i])]) ELSE 0)
          + Chk("C15.weeksOfMonth", key, e.wom = << 0, n >>)
          + Chk("C15.month.weeks.count", << key, Len(e.weeks) >>, e.pweeks = 0 /\ Len(e.weeks) = n)
          + SumN(Len(e.weeks), LAMBDA k :
              Chk("C15.month.weeks.first", << key, k >>,
                  k <= n /\ SubSeq(e.weeks[k].first, 2, 4) = Y3(WeekOfMonthFirst(e.y, e.m, k, e.s)))
              + (IF Has(e.weeks[k], "idx") THEN WeekObsChecks(e.weeks[k], e.s, key) ELSE 0))
          + SumSeq(e.per, LAMBDA x :
              Chk("C15.week.index", << key, x[1] >>, x[2] = 0 /\ x[3] = WeekIndexInMonth(e.y, e.m, x[1], e.s))
              + Chk("C15.week.indexInYear", << key, x[1] >>, x[2] = 0 /\ x[4] = WeekIndexInYear(e.y, e.m, x[1], e.s))
              + Chk("C15.week.firstDay", << key, x[1] >>, x[2] = 0 /\ << x[5], x[6], x[7] >> = Y3(WeekFirst(JDN(e.y, e.m, x[1]), e.s)))))
  /\ UNCHANGED << cur, aux >>

C15Units ==
  /\ IsEv("C15Units")
  /\ LET e == Trace[l]
     IN Consume(
          Chk("C15.year.months", e.y, e.ymonths = [i \in 1..12 |-> << e.y, i >>])
          \* a unit built from a time value is the unit of the date that value shows
          + (IF Has(e, "fromDate") THEN SumSeq(e.fromDate, LAMBDA r : Chk("C15.unit-from-time-value", << e.y, r >>, r[3] = r[4])) ELSE 0)
          + SumSeq(e.per, LAMBDA x :
              Chk("C15.season", << e.y, x.m >>, x.si = SeasonIndex(x.m) /\ x.sm = [i \in 1..3 |-> << e.y, SeasonMonths(x.m)[i] >>])
              + Chk("C15.halfYear", << e.y, x.m >>, x.hi = HalfYearIndex(x.m) /\ x.hm = [i \in 1..6 |-> << e.y, HalfYearMonths(x.m)[i] >>])))
  /\ UNCHANGED << cur, aux >>

C15Nav ==
  /\ IsEv("C15Nav")
  /\ LET e == Trace[l]
         a == e.at
         s == e.s
         J == JDN(a[1], a[2], a[3])
         MI == MonthIndex(a[1], a[2])
         pos0 == << MI, WeekIndexInMonth(a[1], a[2], a[3], s) >>
     IN Consume(
          SumSeq(e.wf, LAMBDA x :
            Chk("C15.week.next", << a, s, x[1] >>, x[2] = 0 /\ << x[3], x[4], x[5] >> = Y3(J + 7 * x[1]))
            + Chk("C15.week.next.back", << a, s, x[1] >>, x[2] = 0 /\ << x[6], x[7], x[8] >> = a))
          + SumSeq(e.ws, LAMBDA x :
              LET pos == WalkWeeks(pos0[1], pos0[2], x.n, s)
                  ym == YmOfIndex(pos[1])
              IN IF x.p # 0 THEN Chk("C15.week.nextSeparate.panic", << a, s, x.n >>, FALSE)
                 ELSE Chk("C15.week.nextSeparate", << a, s, x.n, x.r >>,
                          /\ << x.r.f[1], x.r.f[2] >> = ym /\ x.r.idx = pos[2]
                          /\ x.r.first = Y3(WeekOfMonthFirst(ym[1], ym[2], pos[2], s)))
                      + Chk("C15.week.nextSeparate.back", << a, s, x.n, x.b >>,
                          /\ << x.b.f[1], x.b.f[2] >> = << a[1], a[2] >> /\ x.b.idx = pos0[2]
                          /\ x.b.first = Y3(WeekFirst(J, s))))
          + SumSeq(e.un, LAMBDA x :
              LET n == x[1]
                  k == << a, n >>
                  m1 == YmOfIndex(MI + n)
                  s1 == YmOfIndex(MI + 3 * n)
                  h1 == YmOfIndex(MI + 6 * n)
              IN Chk("C15.month.next", k, << x[2], x[3] >> = m1 /\ << x[4], x[5] >> = << a[1], a[2] >>)
                 + Chk("C15.season.next", k, x[6] = s1[1] /\ x[8] = SeasonIndex(s1[2]) /\ SeasonIndex(x[7]) = x[8]
                                            /\ x[9] = a[1] /\ x[11] = SeasonIndex(a[2]))
                 + Chk("C15.halfYear.next", k, x[12] = h1[1] /\ x[14] = HalfYearIndex(h1[2]) /\ HalfYearIndex(x[13]) = x[14]
                                              /\ x[15] = a[1] /\ x[17] = HalfYearIndex(a[2]))
                 + Chk("C15.year.next", k, x[18] = a[1] + n /\ x[19] = a[1])))
  /\ UNCHANGED << cur, aux >>

(***************************************************************************)
(* C19: printed forms.                                                     *)
(***************************************************************************)
\* a (year, month, day) the rendering tables can index at all (anything else is rejected by name, not by a TLC error)
LFieldsOK(t) == t[1] >= 0 /\ AbsM(t[2]) \in 1..12 /\ t[3] \in 1..30
C19Year ==
  /\ IsEv("C19Year")
  /\ LET e == Trace[l]
         R == e.rows
         n == Len(R)
     IN Consume(
          SumSeq(R, LAMBDA x :
            LET k == << x.c[1], x.c[2], x.c[3] >>
            IN Chk("C19.civil.ymd", << k, x.ymd >>, x.ymd = FmtYmd(x.c[1], x.c[2], x.c[3]) /\ x.str = x.ymd)
               + Chk("C19.civil.ymdhms", << k, x.hms >>, x.hms = FmtYmdHms(x.c[1], x.c[2], x.c[3], x.c[4], x.c[5], x.c[6]))
               + (IF Has(x, "nh")
                    THEN LET pd == YmdOf(JDN(x.c[1], x.c[2], x.c[3]) - 1)
                         IN Chk("C19.civil.stepped-prints-canonically", << k, x.nh >>, x.nh = FmtYmdHms(pd[1], pd[2], pd[3], 0, x.c[5], x.c[6]))
                    ELSE 0)
               + Chk("C19.civil.parse", k, /\ WellFormedYmd(x.ymd) /\ WellFormedYmdHms(x.hms)
                                           /\ ParseYmd(x.ymd) = k /\ ParseYmdHms(x.hms) = x.c)
               + (IF x.p # 0 THEN Chk("C19.lunar.panic", k, FALSE)
                  ELSE IF ~(LFieldsOK(x.l) /\ LFieldsOK(x.t) /\ LFieldsOK(x.f))
                         THEN Chk("C19.lunar.fields-out-of-range", << k, x.l, x.t, x.f >>, FALSE)
                  ELSE Chk("C19.lunar.render", << k, x.l, x.ls >>, x.ls = RenderLunar(x.l[1], x.l[2], x.l[3]))
                       + Chk("C19.lunar.parse", << k, x.l, x.ls >>, WellFormedLunar(x.ls) /\ ParseLunar(x.ls) = x.l)
                       + Chk("C19.tao.render", << k, x.t, x.ts >>, x.ts = RenderLunar(x.t[1], x.t[2], x.t[3])
                                                                   /\ WellFormedLunar(x.ts) /\ ParseLunar(x.ts) = x.t)
                       + Chk("C19.foto.render", << k, x.f, x.fs >>, x.fs = RenderLunar(x.f[1], x.f[2], x.f[3])
                                                                    /\ WellFormedLunar(x.fs) /\ ParseLunar(x.fs) = x.f)))
          \* chronological order of the days of the year = lexicographic order of what they print
          + SumN(n - 1, LAMBDA i :
              Chk("C19.civil.order", << e.y, R[i].c, R[i + 1].c >>,
                  LexCmp(R[i].hms, R[i + 1].hms) = -1 /\ LexCmp(R[i].ymd, R[i + 1].ymd) = -1))
          \* distinct dates never print alike
          + (LET ok == { j \in 1..n : R[j].p = 0 }
                 P == e.pre
                 np == Len(P)
             IN Chk("C19.lunar.distinct", e.y, Cardinality({ R[i].ls : i \in ok } \cup { P[i].ls : i \in 1..np }) = Cardinality(ok) + np)
                + Chk("C19.tao.distinct", e.y, Cardinality({ R[i].ts : i \in ok } \cup { P[i].ts : i \in 1..np }) = Cardinality(ok) + np)
                + Chk("C19.foto.distinct", e.y, Cardinality({ R[i].fs : i \in ok } \cup { P[i].fs : i \in 1..np }) = Cardinality(ok) + np)))
  /\ UNCHANGED << cur, aux >>

(***************************************************************************)
(* C20: zodiac and rule-based civil festivals.                             *)
(***************************************************************************)
SeqSet(s) == { s[i] : i \in 1..Len(s) }
C20Rules ==
  /\ IsEv("C20Rules")
  /\ LET e == Trace[l]
     IN Consume(Chk("C20.rules.fixed", SeqSet(e.fixed), SeqSet(e.fixed) = FixedFestivals)
                + Chk("C20.rules.week", SeqSet(e.week), SeqSet(e.week) = WeekFestivals)
                + Chk("C20.rules.zodiac", e.zodiac, e.zodiac = XingZuo))
  /\ aux' = Trace[l] /\ UNCHANGED cur

ExpectedFestivals(y, m, d) ==
  { r[3] : r \in { q \in FixedFestivals : q[1] = m /\ q[2] = d } }
  \cup { r[4] : r \in { q \in WeekFestivals : q[1] = m /\ ((q[2] > 0 /\ IsKthWeekday(y, m, d, q[2], q[3]))
                                                         \/ (q[2] = 0 /\ IsLastWeekday(y, m, d, q[3]))) } }
C20Year ==
  /\ IsEv("C20Year")
  /\ LET e == Trace[l]
         R == e.rows
         other == aux.other
         OtherOf(m, d) == LET c == { i \in 1..Len(other) : other[i][1] = m /\ other[i][2] = d }
                          IN IF c = {} THEN << >> ELSE other[CHOOSE i \in c : TRUE][3]
     IN Consume(
          SumSeq(R, LAMBDA x :
            LET k == << e.y, x.m, x.d >>
            IN IF x.p # 0 THEN Chk("C20.panic", k, FALSE)
               ELSE Chk("C20.zodiac", << k, x.z >>, x.z = XingZuo[ZodiacOf(x.m, x.d) + 1] /\ x.z2 = x.z)
                    + Chk("C20.festivals", << k, x.f >>, SeqSet(x.f) = ExpectedFestivals(e.y, x.m, x.d) /\ Len(x.f) = Cardinality(SeqSet(x.f)))
                    + Chk("C20.otherFestivals", << k, x.o >>, x.o = OtherOf(x.m, x.d))
                    \* the one-line description names the same festivals and the same sign: date, time, [leap year], weekday,
                    \* "(festival)" ..., "(other festival)" ..., sign + 座
                    + (IF Has(x, "full")
                         THEN LET F == x.full
                                  lp == IF IsLeap(e.y) THEN 1 ELSE 0
                                  nf == Len(x.f) + Len(x.o)
                              IN Chk("C20.description", << k, F >>,
                                     /\ Len(F) = 4 + lp + nf
                                     /\ (lp = 1 => F[3] = "闰年")
                                     /\ \A i \in 1..Len(x.f) : F[3 + lp + i] = "(" \o x.f[i] \o ")"
                                     /\ \A i \in 1..Len(x.o) : F[3 + lp + Len(x.f) + i] = "(" \o x.o[i] \o ")"
                                     /\ F[Len(F)] = x.z \o "座")
                         ELSE 0)
                    + (IF Has(x, "ny")
                         THEN Chk("C20.derived-object", << k, x.ny, x.nz, x.nf >>,
                                  /\ ValidYmd(x.ny[1], x.ny[2], x.ny[3])
                                  /\ x.nz = XingZuo[ZodiacOf(x.ny[2], x.ny[3]) + 1]
                                  /\ SeqSet(x.nf) = ExpectedFestivals(x.ny[1], x.ny[2], x.ny[3]) /\ Len(x.nf) = Cardinality(SeqSet(x.nf)))
                         ELSE 0))
          \* each weekday-rule festival is reported exactly once per year
          + SumSeq(SetToSeq(WeekFestivals), LAMBDA q :
              Chk("C20.once-per-year", << e.y, q >>,
                  Cardinality({ i \in 1..Len(R) : R[i].p = 0 /\ q[4] \in SeqSet(R[i].f) }) = 1))
          + SumSeq(SetToSeq(FixedFestivals), LAMBDA q :
              Chk("C20.once-per-year", << e.y, q >>,
                  Cardinality({ i \in 1..Len(R) : R[i].p = 0 /\ q[3] \in SeqSet(R[i].f) }) = 1)))
  /\ UNCHANGED << cur, aux >>

TraceInit == KitInit /\ cur = Inst(JdnMin, 0) /\ aux = [ev |-> "none"]
TraceNext == C04Day \/ C04Edge \/ C04Start \/ C04Step \/ C07Civil \/ C07Time \/ C07Trip \/ C07Lunar \/ C07Start \/ C07Step
             \/ C15Month \/ C15Units \/ C15Nav
             \/ C19Year \/ C20Rules \/ C20Year
TraceSpec == TraceInit /\ [][TraceNext]_tvars
=============================================================================
