----------------------------- MODULE Trace_Civil -----------------------------
(***************************************************************************)
(* Trace specification of the civil family (C04, C07 civil part, C15, C19  *)
(* civil part, C20).  Each event kind is one action; chain events carry    *)
(* the cursor `cur` between lines, frames are self-contained.              *)
(***************************************************************************)
EXTENDS Civil, TraceKit

VARIABLES cur
tvars == << l, rej, cur >>

Fields(a) == LET t == YmdOf(a.jdn)
             IN << t[1], t[2], t[3], HourOf(a.sod), MinuteOf(a.sod), SecondOf(a.sod) >>
InYears(a) == a.jdn >= JdnMin /\ a.jdn <= JdnMax
ValidRes(r) == ValidDateTime(r[1], r[2], r[3], r[4], r[5], r[6])
InstOfRes(r) == InstOf(r[1], r[2], r[3], r[4], r[5], r[6])

Apply(op, a, n) == CASE op = "NextDay" -> StepDay(a, n)
                     [] op = "NextHour" -> StepHour(a, n)
                     [] op = "NextMonth" -> StepMonth(a, n)
                     [] op = "NextYear" -> StepYear(a, n)
                     [] op = "JdRoundTrip" -> a
\* is the target of the step inside the supported range (else no claim)
Defined(op, a, n) ==
  CASE op = "NextMonth" -> YmOfIndex(MonthIndex(YearOf(a.jdn), MonthOf(a.jdn)) + n)[1] \in MinYear..MaxYear
    [] op = "NextYear" -> (YearOf(a.jdn) + n) \in MinYear..MaxYear
    [] OTHER -> InYears(Apply(op, a, n))

(***************************************************************************)
(* C04Day: everything one civil day contributes.                           *)
(***************************************************************************)
C04DayChecks(e) ==
  LET key == << e.y, e.m, e.d >>
      J == JDN(e.y, e.m, e.d)
  IN IF ~ValidYmd(e.y, e.m, e.d) THEN 0          \* constructor outcome on non-dates is C07's clause
     ELSE IF e.p # 0 THEN Chk("C04.ctor.valid-date-rejected", key, FALSE)
     ELSE
       Chk("C04.weekday", key, e.wk = Weekday(J))
       + SumSeq(e.jd, LAMBDA x : Chk("C04.jd.value", << key, x[1] >>,
                                     x[2] = J /\ x[3] = x[1] /\ x[4] >= -60 /\ x[4] <= 60))
       + SumSeq(e.rt, LAMBDA x : Chk("C04.jd.roundtrip", << key, x[1] >>,
                                     x[2] = 0 /\ << x[3], x[4], x[5] >> = key
                                     /\ Sod(x[6], x[7], x[8]) = x[1]))
       + (IF Has(e, "fj") THEN
            SumSeq(e.fj, LAMBDA x :
              LET t == RoundMs(x[1], x[2], x[3])
              IN IF ~InYears(t) THEN 0
                 ELSE Chk("C04.fromjd", << key, x[2], x[3] >>,
                          x[4] = 0 /\ << x[5], x[6], x[7], x[8], x[9], x[10] >> = Fields(t)))
          ELSE 0)
       + SumSeq(e.pa, LAMBDA x :
           LET a == Inst(J, x[7])
               okO == ValidDateTime(x[1], x[2], x[3], x[4], x[5], x[6])
               b == InstOf(x[1], x[2], x[3], x[4], x[5], x[6])
               pk == << key, x[7], << x[1], x[2], x[3], x[4], x[5], x[6] >> >>
           IN IF ~okO THEN Chk("C04.partner.invalid", pk, FALSE)
              ELSE Chk("C04.cmp.panic", pk, x[8] = 0)
                   + Chk("C04.subtract", pk, x[9] = a.jdn - b.jdn)
                   + (IF x[11] = 1 THEN Chk("C04.subtractMinute", pk, x[10] = MinutesBetween(b, a)) ELSE 0)
                   + Chk("C04.isBefore", pk, (x[12] = 1) <=> Before(a, b))
                   + Chk("C04.isAfter", pk, (x[13] = 1) <=> After(a, b)))

C04Day == IsEv("C04Day") /\ Consume(C04DayChecks(Trace[l])) /\ UNCHANGED cur

(***************************************************************************)
(* Stepping, observed as an edge (stateless) or as a chain step (stateful).*)
(***************************************************************************)
StepChecks(tag, key, a, e) ==
  IF ~Defined(e.op, a, e.n) THEN 0
  ELSE LET t == Apply(e.op, a, e.n)
       IN IF e.p # 0 THEN Chk(tag \o ".panic", key, FALSE)
          ELSE Chk(tag \o ".result", << key, e.res >>, e.res = Fields(t))
               + Chk(tag \o ".valid", << key, e.res >>, ValidRes(e.res))

C04Edge ==
  /\ IsEv("C04Edge")
  /\ LET e == Trace[l]
         key == << e.from, e.op, e.n >>
     IN Consume(IF e.p = 2 \/ ~ValidYmd(e.from[1], e.from[2], e.from[3])
                  THEN Chk("C04.edge.from-rejected", key, FALSE)
                  ELSE StepChecks("C04.edge." \o e.op, key, Inst(JDN(e.from[1], e.from[2], e.from[3]), e.from[4]), e))
  /\ UNCHANGED cur

C04Start ==
  /\ IsEv("C04Start")
  /\ LET e == Trace[l]
     IN /\ Consume(Chk("C04.chain.start", e.at, ValidRes(e.at)))
        /\ cur' = IF ValidRes(e.at) THEN InstOfRes(e.at) ELSE cur

C04Step ==
  /\ IsEv("C04Step")
  /\ LET e == Trace[l]
         key == << e.k, l, Fields(cur), e.op, e.n >>
     IN /\ Consume(StepChecks("C04.chain." \o e.op, key, cur, e))
        \* resynchronise on the observed state so the rest of the chain is still checked
        /\ cur' = IF e.p = 0 /\ ValidRes(e.res) THEN InstOfRes(e.res)
                  ELSE IF Defined(e.op, cur, e.n) THEN Apply(e.op, cur, e.n) ELSE cur

TraceInit == KitInit /\ cur = Inst(JdnMin, 0)
TraceNext == C04Day \/ C04Edge \/ C04Start \/ C04Step
TraceSpec == TraceInit /\ [][TraceNext]_tvars
=============================================================================
