----------------------------- MODULE Trace_Civil -----------------------------
(***************************************************************************)
(* Trace specification of the civil family (C04, C07 civil part, C15, C19  *)
(* civil part, C20).  Each event kind is one action; chain events carry    *)
(* the cursor `cur` between lines, frames are self-contained.              *)
(***************************************************************************)
EXTENDS Civil, TraceKit

VARIABLES cur
tvars == << l, rej, cur >>

Fields(a) == LET t == YmdOf(a.jdn)
             IN << t[1], t[2], t[3], HourOf(a.sod), MinuteOf(a.sod), SecondOf(a.sod) >>
InYears(a) == a.jdn >= JdnMin /\ a.jdn <= JdnMax
ValidRes(r) == ValidDateTime(r[1], r[2], r[3], r[4], r[5], r[6])
InstOfRes(r) == InstOf(r[1], r[2], r[3], r[4], r[5], r[6])

Apply(op, a, n) == CASE op = "NextDay" -> StepDay(a, n)
                     [] op = "NextHour" -> StepHour(a, n)
                     [] op = "NextMonth" -> StepMonth(a, n)
                     [] op = "NextYear" -> StepYear(a, n)
                     [] op = "JdRoundTrip" -> a
                     \* conversions through the lunar / Taoist / Buddhist objects keep the instant
                     [] op \in {"LunarRound", "LunarCtor", "TaoCtor", "FotoCtor"} -> a
                     [] op = "LunarNext" -> StepDay(a, n)
\* is the target of the step inside the supported range (else no claim)
Defined(op, a, n) ==
  CASE op = "NextMonth" -> YmOfIndex(MonthIndex(YearOf(a.jdn), MonthOf(a.jdn)) + n)[1] \in MinYear..MaxYear
    [] op = "NextYear" -> (YearOf(a.jdn) + n) \in MinYear..MaxYear
    [] OTHER -> InYears(Apply(op, a, n))

(***************************************************************************)
(* C04Day: everything one civil day contributes.                           *)
(***************************************************************************)
C04DayChecks(e) ==
  LET key == << e.y, e.m, e.d >>
      J == JDN(e.y, e.m, e.d)
  IN IF ~ValidYmd(e.y, e.m, e.d) THEN 0          \* constructor outcome on non-dates is C07's clause
     ELSE IF e.p # 0 THEN Chk("C04.ctor.valid-date-rejected", key, FALSE)
     ELSE
       Chk("C04.weekday", key, e.wk = Weekday(J))
       + SumSeq(e.jd, LAMBDA x : Chk("C04.jd.value", << key, x[1] >>,
                                     x[2] = J /\ x[3] = x[1] /\ x[4] >= -60 /\ x[4] <= 60))
       + SumSeq(e.rt, LAMBDA x : Chk("C04.jd.roundtrip", << key, x[1] >>,
                                     x[2] = 0 /\ << x[3], x[4], x[5] >> = key
                                     /\ Sod(x[6], x[7], x[8]) = x[1]))
       + (IF Has(e, "fj") THEN
            SumSeq(e.fj, LAMBDA x :
              LET t == RoundMs(x[1], x[2], x[3])
              IN IF ~InYears(t) THEN 0
                 ELSE Chk("C04.fromjd", << key, x[2], x[3] >>,
                          x[4] = 0 /\ << x[5], x[6], x[7], x[8], x[9], x[10] >> = Fields(t)))
          ELSE 0)
       + SumSeq(e.pa, LAMBDA x :
           LET a == Inst(J, x[7])
               okO == ValidDateTime(x[1], x[2], x[3], x[4], x[5], x[6])
               b == InstOf(x[1], x[2], x[3], x[4], x[5], x[6])
               pk == << key, x[7], << x[1], x[2], x[3], x[4], x[5], x[6] >> >>
           IN IF ~okO THEN Chk("C04.partner.invalid", pk, FALSE)
              ELSE Chk("C04.cmp.panic", pk, x[8] = 0)
                   + Chk("C04.subtract", pk, x[9] = a.jdn - b.jdn)
                   + (IF x[11] = 1 THEN Chk("C04.subtractMinute", pk, x[10] = MinutesBetween(b, a)) ELSE 0)
                   + Chk("C04.isBefore", pk, (x[12] = 1) <=> Before(a, b))
                   + Chk("C04.isAfter", pk, (x[13] = 1) <=> After(a, b)))

C04Day == IsEv("C04Day") /\ Consume(C04DayChecks(Trace[l])) /\ UNCHANGED cur

(***************************************************************************)
(* Stepping, observed as an edge (stateless) or as a chain step (stateful).*)
(***************************************************************************)
StepChecks(tag, key, a, e) ==
  IF ~Defined(e.op, a, e.n) THEN 0
  ELSE LET t == Apply(e.op, a, e.n)
       IN IF e.p # 0 THEN Chk(tag \o ".panic", key, FALSE)
          ELSE Chk(tag \o ".result", << key, e.res >>, e.res = Fields(t))
               + Chk(tag \o ".valid", << key, e.res >>, ValidRes(e.res))

C04Edge ==
  /\ IsEv("C04Edge")
  /\ LET e == Trace[l]
         key == << e.from, e.op, e.n >>
     IN Consume(IF e.p = 2 \/ ~ValidYmd(e.from[1], e.from[2], e.from[3])
                  THEN Chk("C04.edge.from-rejected", key, FALSE)
                  ELSE StepChecks("C04.edge." \o e.op, key, Inst(JDN(e.from[1], e.from[2], e.from[3]), e.from[4]), e))
  /\ UNCHANGED cur

C04Start ==
  /\ IsEv("C04Start")
  /\ LET e == Trace[l]
     IN /\ Consume(Chk("C04.chain.start", e.at, ValidRes(e.at)))
        /\ cur' = IF ValidRes(e.at) THEN InstOfRes(e.at) ELSE cur

C04Step ==
  /\ IsEv("C04Step")
  /\ LET e == Trace[l]
         key == << e.k, l, Fields(cur), e.op, e.n >>
     IN /\ Consume(StepChecks("C04.chain." \o e.op, key, cur, e))
        \* resynchronise on the observed state so the rest of the chain is still checked
        /\ cur' = IF e.p = 0 /\ ValidRes(e.res) THEN InstOfRes(e.res)
                  ELSE IF Defined(e.op, cur, e.n) THEN Apply(e.op, cur, e.n) ELSE cur

(***************************************************************************)
(* C07: constructors accept exactly what exists.                           *)
(***************************************************************************)
\* e.o[i] is the outcome (1 = panic) for day number i - 2, i.e. days -1..33
C07Civil ==
  /\ IsEv("C07Civil")
  /\ LET e == Trace[l]
     IN Consume(SumN(Len(e.o), LAMBDA i :
                  LET d == i - 2
                  IN Chk(IF e.o[i] = 1 THEN "C07.civil.rejected-existing-date" ELSE "C07.civil.accepted-nonexistent-date",
                         << e.y, e.m, d >>, (e.o[i] = 0) <=> ValidYmd(e.y, e.m, d))))
  /\ UNCHANGED cur

C07Time ==
  /\ IsEv("C07Time")
  /\ LET e == Trace[l]
     IN Consume(SumSeq(e.t, LAMBDA x :
                  LET ok == ValidHms(x[1], x[2], x[3])
                      key == << e.y, e.m, e.d, x[1], x[2], x[3] >>
                  IN Chk("C07.civil.time-outcome", key, (x[4] = 0) <=> ok)
                     + (IF x[4] = 0 /\ Len(x) = 10
                          THEN Chk("C07.civil.fields", key, << x[5], x[6], x[7], x[8], x[9], x[10] >> = << e.y, e.m, e.d, x[1], x[2], x[3] >>)
                          ELSE 0)))
  /\ UNCHANGED cur

\* the lunar (year, month, day) triples that are the image of some civil day
C07Lunar ==
  /\ IsEv("C07Lunar")
  /\ LET e == Trace[l]
         okImg == \A i \in 1..Len(e.img) : e.img[i][4] = 0
         Img == { << x[6], x[7] >> : x \in { e.img[i] : i \in { k \in 1..Len(e.img) : e.img[k][4] = 0 /\ e.img[k][5] = e.y } } }
         \* civil day (jdn) of an image triple
         JdnOf(m, d) == LET x == CHOOSE z \in { e.img[i] : i \in 1..Len(e.img) } : z[4] = 0 /\ z[5] = e.y /\ z[6] = m /\ z[7] = d
                        IN JDN(x[1], x[2], x[3])
         \* accepted (month, day) pairs of a 26 x 32 outcome table (months -12..13, days 0..31)
         AccSet(rows) == { p \in { << m, d >> : m \in -12..13, d \in 0..31 } : rows[p[1] + 13][p[2] + 1] = 0 }
         Rows(name, rows) == LET acc == AccSet(rows)
                             IN Chk("C07." \o name \o ".rejected-existing-date", << e.y, Img \ acc >>, Img \ acc = {})
                                + Chk("C07." \o name \o ".accepted-nonexistent-date", << e.y, acc \ Img >>, acc \ Img = {})
     IN Consume(Chk("C07.lunar.image.panic", e.y, okImg)
                + Rows("lunar", e.lunar) + Rows("tao", e.tao) + Rows("foto", e.foto)
                + SumSeq(e.got, LAMBDA x :
                    LET key == << e.y, x[1], x[2] >>
                    IN Chk("C07.lunar.fields", key, << x[3], x[4], x[5], x[6], x[7], x[8] >> = << e.y, x[1], x[2], 7, 8, 9 >>)
                       + (IF << x[1], x[2] >> \in Img /\ ValidRes(<< x[9], x[10], x[11], x[12], x[13], x[14] >>)
                            THEN Chk("C07.lunar.civil-day", key, JDN(x[9], x[10], x[11]) = JdnOf(x[1], x[2]) /\ << x[12], x[13], x[14] >> = << 7, 8, 9 >>)
                            ELSE Chk("C07.lunar.civil-day", key, << x[1], x[2] >> \notin Img)))
                + SumSeq(e.t, LAMBDA x :
                    LET ok == ValidHms(x[1], x[2], x[3]) /\ << 1, 1 >> \in Img
                        key == << e.y, x[1], x[2], x[3] >>
                    IN Chk("C07.lunar.time-outcome", key, (x[4] = 0) <=> ok)
                       + Chk("C07.tao.time-outcome", key, (x[5] = 0) <=> ok)
                       + Chk("C07.foto.time-outcome", key, (x[6] = 0) <=> ok)))
  /\ UNCHANGED cur

C07Start ==
  /\ IsEv("C07Start")
  /\ LET e == Trace[l]
     IN /\ Consume(Chk("C07.chain.start", e.at, ValidRes(e.at)))
        /\ cur' = IF ValidRes(e.at) THEN InstOfRes(e.at) ELSE cur

\* shape of a lunar-side object met on the way (its exact validity against the
\* month tables is C01 / C06; here: no field outside its type)
LunarShape(x, a) == /\ (x[2] \in 1..12 \/ -x[2] \in 1..12) /\ x[3] \in 1..30
                    /\ Sod(x[4], x[5], x[6]) = a.sod
C07Step ==
  /\ IsEv("C07Step")
  /\ LET e == Trace[l]
         key == << e.k, l, Fields(cur), e.op, e.n >>
         t == IF Defined(e.op, cur, e.n) THEN Apply(e.op, cur, e.n) ELSE cur
     IN /\ Consume(StepChecks("C07.chain." \o e.op, key, cur, e)
                   + (IF e.p = 0 /\ Len(e.lun) = 6 /\ Defined(e.op, cur, e.n)
                        THEN Chk("C07.chain.lunar-shape", << key, e.lun >>, LunarShape(e.lun, t)) ELSE 0))
        /\ cur' = IF e.p = 0 /\ ValidRes(e.res) THEN InstOfRes(e.res)
                  ELSE IF Defined(e.op, cur, e.n) THEN Apply(e.op, cur, e.n) ELSE cur

TraceInit == KitInit /\ cur = Inst(JdnMin, 0)
TraceNext == C04Day \/ C04Edge \/ C04Start \/ C04Step \/ C07Civil \/ C07Time \/ C07Lunar \/ C07Start \/ C07Step
TraceSpec == TraceInit /\ [][TraceNext]_tvars
=============================================================================
