SPECIFICATION Spec
CONSTANTS
 Procs <- ProcsV
 Years <- YearsV
 BadYears <- NoBad
 CallsPerProc = 2
 LazyEightChar = FALSE
INVARIANTS MutualExclusion HolderIsInCS CacheComplete ResultCorrect NoLockLeak NoRace
PROPERTIES Progress
CHECK_DEADLOCK FALSE
