------------------------------ MODULE Holiday ------------------------------
(***************************************************************************)
(* The holiday table as a set of records << day, name, work, target >>     *)
(* (days as integers yyyymmdd, name as index into the names list, work =   *)
(* 1 for a make-up working day).  Four query views, Fix, workdays, salary. *)
(***************************************************************************)
EXTENDS Integers, Sequences, FiniteSets, Civil

RDay(r) == r[1]
RTarget(r) == r[4]
DayToJdn(d) == JDN(d \div 10000, (d \div 100) % 100, d % 100)
JdnToDay(j) == LET t == YmdOf(j) IN t[1] * 10000 + t[2] * 100 + t[3]
UniqueDays(H) == Cardinality({ RDay(r) : r \in H }) = Cardinality(H)      \* no two records for one day

\* sort a finite set of records by day (days unique)
RECURSIVE SortByDay(_)
SortByDay(S) == IF S = {} THEN << >>
                ELSE LET m == CHOOSE r \in S : \A q \in S : RDay(r) <= RDay(q)
                     IN << m >> \o SortByDay(S \ {m})
ByDay(H, d) == { r \in H : RDay(r) = d }
ByMonth(H, ym) == SortByDay({ r \in H : RDay(r) \div 100 = ym })
ByYear(H, y) == SortByDay({ r \in H : RDay(r) \div 10000 = y })
ByTarget(H, t) == { r \in H : RTarget(r) = t }

(* Fix: a sequence of segments << day, remove, name, work, target >> *)
ApplySeg(H, s) == LET old == ByDay(H, s[1])
                  IN IF s[2] = 1 THEN H \ old                                   \* remove (absent: nothing happens)
                     ELSE (H \ old) \cup { << s[1], s[3], s[4], s[5] >> }      \* add or replace
RECURSIVE ApplyFix(_, _)
ApplyFix(H, segs) == IF segs = << >> THEN H ELSE ApplyFix(ApplySeg(H, Head(segs)), Tail(segs))

(* working days *)
IsWorkday(H, j) == LET rs == ByDay(H, JdnToDay(j))
                   IN IF rs = {} THEN Weekday(j) \in 1..5
                      ELSE (CHOOSE r \in rs : TRUE)[3] = 1
\* the |n|-th working day strictly after (n > 0) / before (n < 0) day j
RECURSIVE WorkdayWalk(_, _, _, _)
WorkdayWalk(H, j, left, dir) == IF left = 0 THEN j
                                ELSE LET k == j + dir
                                     IN WorkdayWalk(H, k, IF IsWorkday(H, k) THEN left - 1 ELSE left, dir)
NextWorkday(H, j, n) == IF n > 0 THEN WorkdayWalk(H, j, n, 1) ELSE IF n < 0 THEN WorkdayWalk(H, j, -n, -1) ELSE j
WorkdaysBetween(H, a, b) == Cardinality({ k \in (a + 1)..b : IsWorkday(H, k) })

(* pay-rate multiplier: 3 on the statutory festival days, 2 on other days off, 1 otherwise *)
Statutory(m, d, lm, ld, qingming) == \/ (m = 1 /\ d = 1) \/ (m = 5 /\ d = 1) \/ (m = 10 /\ d \in 1..3)
                                     \/ (lm = 1 /\ ld \in 1..3) \/ (lm = 5 /\ ld = 5) \/ (lm = 8 /\ ld = 15) \/ qingming
SalaryRate(H, day, lm, ld, qingming) ==
  LET j == DayToJdn(day) IN
  IF Statutory((day \div 100) % 100, day % 100, lm, ld, qingming) THEN 3
  ELSE IF ~IsWorkday(H, j) THEN 2 ELSE 1
=============================================================================
