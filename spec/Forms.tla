------------------------------- MODULE Forms -------------------------------
(***************************************************************************)
(* Chinese renderings of lunar / Taoist / Buddhist dates as sequences of   *)
(* single-character strings, and their inverse.                            *)
(*   year digit by digit, 年, optional 闰, month name, 月, day name          *)
(***************************************************************************)
EXTENDS Vocab, Integers, Sequences

RECURSIVE DecDigits(_)
DecDigits(n) == IF n < 10 THEN << n >> ELSE DecDigits(n \div 10) \o << n % 10 >>
YearRunes(y) == LET ds == DecDigits(y) IN [i \in 1..Len(ds) |-> Digits[ds[i] + 1]]
AbsM(m) == IF m < 0 THEN -m ELSE m
RenderLunar(y, m, d) ==
  YearRunes(y) \o << "年" >> \o (IF m < 0 THEN << "闰" >> ELSE << >>) \o << MonthName[AbsM(m)] >> \o << "月" >> \o DayRunes[d]

\* ---- inverse --------------------------------------------------------------
DigitSet == { Digits[i] : i \in 1..10 }
DigitVal(ch) == (CHOOSE i \in 1..10 : Digits[i] = ch) - 1
MonthSet == { MonthName[i] : i \in 1..12 }
MonthVal(ch) == CHOOSE i \in 1..12 : MonthName[i] = ch
DaySet == { DayRunes[i] : i \in 1..30 }
DayVal(two) == CHOOSE i \in 1..30 : DayRunes[i] = two
RECURSIVE NumOf(_, _)
NumOf(s, n) == IF n = 0 THEN 0 ELSE NumOf(s, n - 1) * 10 + DigitVal(s[n])
\* position of the year marker = number of leading digit characters + 1
RECURSIVE LeadDigits(_, _)
LeadDigits(s, i) == IF i <= Len(s) /\ s[i] \in DigitSet THEN LeadDigits(s, i + 1) ELSE i - 1
WellFormedLunar(s) ==
  LET k == LeadDigits(s, 1)
      leap == Len(s) >= k + 2 /\ s[k + 2] = "闰"
      p == IF leap THEN k + 3 ELSE k + 2              \* position of the month name
  IN /\ k >= 1 /\ Len(s) = p + 3
     /\ s[k + 1] = "年" /\ s[p] \in MonthSet /\ s[p + 1] = "月"
     /\ << s[p + 2], s[p + 3] >> \in DaySet
ParseLunar(s) ==
  LET k == LeadDigits(s, 1)
      leap == s[k + 2] = "闰"
      p == IF leap THEN k + 3 ELSE k + 2
      m == MonthVal(s[p])
  IN << NumOf(s, k), IF leap THEN -m ELSE m, DayVal(<< s[p + 2], s[p + 3] >>) >>
=============================================================================
