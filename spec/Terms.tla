------------------------------- MODULE Terms -------------------------------
(***************************************************************************)
(* The 31-entry solar-term table of a civil year: from the previous        *)
(* winter's Daxue (position 1) to the following spring's Jingzhe           *)
(* (position 31).  An entry is an instant [jdn, sod] (UTC+8).               *)
(* Order, spacing, lookups (previous / next / of-day), Jie / Qi parity.    *)
(***************************************************************************)
EXTENDS Integers, Sequences, FiniteSets, Vocab

TBefore(a, b) == a.jdn < b.jdn \/ (a.jdn = b.jdn /\ a.sod < b.sod)
TLeq(a, b) == ~TBefore(b, a)
\* target longitude of table position i in degrees
TermLon(i) == (255 + 15 * (i - 1)) % 360
\* position i is a Jie ("node", starts a month) iff i is odd (Daxue, Xiaohan, Lichun, ...), else a Qi
IsJiePos(i) == i % 2 = 1
SecondsBetween(a, b) == (b.jdn - a.jdn) * 86400 + (b.sod - a.sod)       \* only for instants < 24000 days apart
StrictlyIncreasing(T) == \A i \in 1..(Len(T) - 1) : TBefore(T[i], T[i + 1])
SpacingOK(T) == \A i \in 1..(Len(T) - 1) : LET s == SecondsBetween(T[i], T[i + 1]) IN s >= 1261440 /\ s <= 1365120

\* filters: "jie", "qi", "all"
InFilter(F, i) == CASE F = "jie" -> IsJiePos(i) [] F = "qi" -> ~IsJiePos(i) [] OTHER -> TRUE
\* at-or-before / strictly-after, by instant or by whole civil day
AtOrBefore(T, i, q, whole) == IF whole THEN T[i].jdn <= q.jdn ELSE TLeq(T[i], q)
StrictlyAfter(T, i, q, whole) == IF whole THEN T[i].jdn > q.jdn ELSE TBefore(q, T[i])
PrevCands(T, q, F, whole) == { i \in 1..Len(T) : InFilter(F, i) /\ AtOrBefore(T, i, q, whole) }
NextCands(T, q, F, whole) == { i \in 1..Len(T) : InFilter(F, i) /\ StrictlyAfter(T, i, q, whole) }
\* 0 when there is none in the table
MaxOf(S) == IF S = {} THEN 0 ELSE CHOOSE i \in S : \A k \in S : k <= i
MinOf(S) == IF S = {} THEN 0 ELSE CHOOSE i \in S : \A k \in S : i <= k
PrevPos(T, q, F, whole) == MaxOf(PrevCands(T, q, F, whole))
NextPos(T, q, F, whole) == MinOf(NextCands(T, q, F, whole))
\* the term whose instant falls on civil day j (0 if none); first match in table order
OfDayPos(T, j, F) == MinOf({ i \in 1..Len(T) : InFilter(F, i) /\ T[i].jdn = j })
=============================================================================
