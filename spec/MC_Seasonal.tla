----------------------------- MODULE MC_Seasonal -----------------------------
(***************************************************************************)
(* A day cursor walks through a synthetic year whose summer-solstice day   *)
(* takes every stem and whose solstice-to-Liqiu distance takes 44..49      *)
(* days.  The counters of Seasonal.tla must behave like counters.          *)
(***************************************************************************)
EXTENDS Seasonal, TLC
VARIABLES b, dl, j
vars == << b, dl, j >>
\* terms 15 days apart (16 after the summer solstice as needed), summer solstice (position 14) on day b
T == [i \in 1..31 |-> [jdn |-> b + 15 * (i - 14) + (IF i >= 17 THEN dl - 45 ELSE 0), sod |-> 0]]
Init == b \in 2451545..2451554 /\ dl \in 44..49 /\ j = T[PosDongZhiPrev].jdn - 3
Next == j < T[PosDongZhi].jdn + 85 /\ j' = j + 1 /\ UNCHANGED << b, dl >>
Spec == Init /\ [][Next]_vars
GengDaysIn(a, c) == Cardinality({ k \in a..c : StemOfDay(k) = 6 })
FuLaws ==
  LET f == FuOf(T, j) IN
  /\ f[1] \in 0..3
  /\ (f[1] = 1 /\ f[2] = 1) => (StemOfDay(j) = 6 /\ GengDaysIn(T[PosXiaZhi].jdn, j) = 3)     \* third geng day on/after the solstice
  /\ (f[1] = 3 /\ f[2] = 1) => (StemOfDay(j) = 6 /\ j >= T[PosLiQiu].jdn /\ GengDaysIn(T[PosLiQiu].jdn, j) = 1)
  /\ FuMiddleLength(T) \in {10, 20}
FuSteps == [][ LET f == FuOf(T, j) g == FuOf(T, j + 1) IN
               /\ (f[1] = g[1] /\ f[1] # 0) => g[2] = f[2] + 1
               /\ (f[1] # g[1]) => /\ g[1] = (f[1] + 1) % 4
                                   /\ (g[1] # 0 => g[2] = 1)
                                   /\ (f[1] = 1 => f[2] = 10) /\ (f[1] = 2 => f[2] \in {10, 20}) /\ (f[1] = 3 => f[2] = 10) ]_vars
ShuJiuLaws == InShuJiu(T, j) => (ShuJiuGroup(T, j) \in 1..9 /\ ShuJiuDay(T, j) \in 1..9)
ShuJiuSteps == [][ /\ (InShuJiu(T, j) /\ InShuJiu(T, j + 1) /\ ShuJiuStart(T, j) = ShuJiuStart(T, j + 1)) =>
                        ( 9 * ShuJiuGroup(T, j + 1) + ShuJiuDay(T, j + 1) = 9 * ShuJiuGroup(T, j) + ShuJiuDay(T, j) + 1 )
                   /\ (~InShuJiu(T, j) /\ InShuJiu(T, j + 1)) => (j + 1 = ShuJiuStart(T, j + 1) /\ ShuJiuGroup(T, j + 1) = 1 /\ ShuJiuDay(T, j + 1) = 1)
                   /\ (InShuJiu(T, j) /\ ~InShuJiu(T, j + 1)) => (ShuJiuGroup(T, j) = 9 /\ ShuJiuDay(T, j) = 9 /\ j - ShuJiuStart(T, j) = 80) ]_vars
PentadLaws == j >= T[1].jdn => /\ PentadOf(T, j) \in 0..2 /\ WuHouIndex(T, j) \in 0..71
                               /\ (j = T[TermInForce(T, j)].jdn => PentadOf(T, j) = 0)
                               /\ WuHouIndex(T, T[PosDongZhiPrev].jdn) = 0 /\ WuHouIndex(T, T[PosDongZhi].jdn) = 0
PentadSteps == [][ j >= T[1].jdn => WuHouIndex(T, j + 1) \in { WuHouIndex(T, j), (WuHouIndex(T, j) + 1) % 72 } ]_vars
SheLaws == /\ StemOfDay(SheDay(T, PosLiChun)) = 4 /\ SheDay(T, PosLiChun) - T[PosLiChun].jdn \in 40..49
           /\ Cardinality({ k \in T[PosLiChun].jdn..SheDay(T, PosLiChun) : StemOfDay(k) = 4 }) = 5
           /\ HanShiDay(T) + 1 = T[PosQingMing].jdn
=============================================================================
