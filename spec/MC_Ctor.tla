------------------------------ MODULE MC_Ctor ------------------------------
(***************************************************************************)
(* The civil constructor as a total outcome function over an argument box  *)
(* around the valid ranges: every tuple is either accepted (and then is a  *)
(* fixed point of instant -> fields) or rejected with the cursor unchanged.*)
(***************************************************************************)
EXTENDS Civil, TLC
CONSTANTS Years
VARIABLES args, pc, outcome, obj
vars == << args, pc, outcome, obj >>
None == Inst(0, 0)
\* the caller first fixes the date arguments, then the time arguments (two steps so
\* that TLC expands the box with all workers instead of in the initial-state pass)
Init == /\ args \in { << y, m, d, 0, 0, 0 >> : y \in Years, m \in -1..14, d \in -1..33 }
        /\ pc = "pick" /\ outcome = "none" /\ obj = None
PickTime == /\ pc = "pick" /\ pc' = "call" /\ UNCHANGED << outcome, obj >>
            /\ \E h \in {-1, 0, 23, 24}, mi \in {-1, 0, 59, 60}, s \in {-1, 0, 59, 60} :
                 args' = << args[1], args[2], args[3], h, mi, s >>
NewSolar == /\ pc = "call" /\ pc' = "done" /\ UNCHANGED args
            /\ IF ValidDateTime(args[1], args[2], args[3], args[4], args[5], args[6])
                 THEN outcome' = "ok" /\ obj' = InstOf(args[1], args[2], args[3], args[4], args[5], args[6])
                 ELSE outcome' = "panic" /\ obj' = obj
Next == PickTime \/ NewSolar
Spec == Init /\ [][Next]_vars
Fields(a) == LET t == YmdOf(a.jdn) IN << t[1], t[2], t[3], HourOf(a.sod), MinuteOf(a.sod), SecondOf(a.sod) >>
TotalOutcome == pc = "done" => outcome \in {"ok", "panic"}
FixedPoint == (pc = "done" /\ outcome = "ok") => Fields(obj) = args
RejectKeeps == (pc = "done" /\ outcome = "panic") => obj = None
\* every existing day of the years is accepted: the accepted (y, m, d) are exactly the YmdOf image
ImageOK == (pc = "done" /\ outcome = "ok") => (obj.jdn \in JDN(args[1], 1, 1)..JDN(args[1], 12, 31) /\ obj.sod \in 0..86399)
\* the accepted day numbers of a month are gap-free except 1582-10
YearsV == {4, 100, 1582, 1900, 2000, 2023}
=============================================================================
