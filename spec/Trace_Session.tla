---------------------------- MODULE Trace_Session ----------------------------
(***************************************************************************)
(* Trace specification of Session.tla (C09, sequential half): sessions     *)
(* enumerated by TLC from MC_Session are executed on real objects; after   *)
(* every call the driver records a digest of every accessor of every live  *)
(* date object, of its civil date, of every chart handle, and the holiday  *)
(* record of every day fix-ups touch.  Each SessStep must be an enabled    *)
(* step of the specification's own action, and every recorded digest must  *)
(* equal the reference digest (SessRef: taken at the start of the process, *)
(* one fresh object per abstract state) of the key the specification       *)
(* computes in the state after the step.                                   *)
(*                                                                         *)
(* Verdict (names C09.x): an object nobody called SetSect on, a holiday day *)
(* no fix-up touched, show their fresh-state reference whatever else the   *)
(* session did (other objects, other days, recovered panics).  What a      *)
(* SetSect or a Fix does to ITS OWN object / day (the chart is a view of   *)
(* the date object; the last fix-up wins) is this specification's reading  *)
(* of the documented usage, not part of C09's statement: those checks are  *)
(* extension checks (names EXT.x), reported but never a verdict.           *)
(***************************************************************************)
EXTENDS Session, TraceKit
VARIABLES ref,
          dirty,    \* date objects whose convention was set through a handle in this session
          nfix      \* fix-ups applied to each holiday day in this session
tvars == << l, rej, live, of, holv, names, ref, dirty, nfix >>
TrInstDate(t) == IF t = 1 THEN 1 ELSE 0

SessRef ==
  /\ IsEv("SessRef")
  /\ LET e == Trace[l]
     IN Consume(Chk("C09.session.setup", e.instDate, e.instDate = [t \in Instants |-> TrInstDate(t)]
                                                      /\ e.fixDate = [k \in FixIds |-> FixDate(k)]
                                                      /\ Len(e.lunar) = NInst /\ Len(e.hol) = NDate)
                \* the reference itself: the two conventions differ somewhere (23:xx instants), fix-ups change their day
                + Chk("C09.session.reference-vacuous", "sect", \E t \in Instants : e.lunar[t][1][1] # e.lunar[t][2][1])
                + Chk("C09.session.reference-vacuous", "fix", \A d \in Dates : \E k \in FixIds : e.hol[d][k + 1][1] # e.hol[d][1][1])
                + Chk("C09.session.reference-vacuous", "names", \E d \in Dates : \E k \in 0..NFix : e.hol[d][k + 1][1] # e.hol[d][k + 1][2]))
  /\ ref' = Trace[l]
  /\ UNCHANGED << svars, dirty, nfix >>

SessStart ==
  /\ IsEv("SessStart")
  /\ Consume(0)
  /\ live' = [o \in Objs |-> [t |-> 0, sect |-> 2]]
  /\ of' = [h \in Handles |-> 0]
  /\ holv' = [d \in Dates |-> 0]
  /\ names' = 0
  /\ dirty' = {}
  /\ nfix' = [d \in Dates |-> 0]
  /\ UNCHANGED ref

\* the checks are evaluated in the state AFTER the step (primed variables)
HolOfP(t) == IF t = 0 \/ TrInstDate(t) = 0 THEN 0 ELSE holv'[TrInstDate(t)]
LunarKeyP(o) == << live'[o].t, live'[o].sect, HolOfP(live'[o].t) >>
ObsChecks(e) ==
  LET key == << e.sid, e.i, e.a >>
      \* verdict-bearing name while the object / day is untouched, extension name afterwards
      ON(o, n) == IF o \in dirty' THEN "EXT.session." \o n ELSE "C09.session." \o n
      \* a day with at most one fix-up: the reference was produced by the very same mutating calls, only the
      \* interleaved reads and the calls on other days / objects differ
      DN(d, n) == IF nfix'[d] > 1 THEN "EXT.session." \o n ELSE "C09.session." \o n
  IN
  Chk("C09.session.recovered-panic", key, (e.p = 1) = (e.a[1] = "Bad"))
  + SumN(NObj, LAMBDA o :
      LET k == LunarKeyP(o)
      IN
      IF live'[o].t = 0 THEN Chk("C09.session.obs-shape", << key, "lunar", o >>, e.obs.lunar[o] = "" /\ e.obs.solar[o] = "")
      ELSE Chk(IF k[3] # 0 THEN "EXT.session.lunar-on-fixed-day" ELSE ON(o, "lunar-depends-on-own-state-only"),
               << key, o, k, e.obs.lunar[o] >>, e.obs.lunar[o] = ref.lunar[k[1]][k[2]][k[3] + 1])
           + Chk(IF k[3] # 0 THEN "EXT.session.solar-on-fixed-day" ELSE "C09.session.solar-depends-on-own-state-only",
                 << key, o, k, e.obs.solar[o] >>, e.obs.solar[o] = ref.solar[k[1]][k[3] + 1]))
  + SumN(NHandle, LAMBDA h :
      IF of'[h] = 0 THEN Chk("C09.session.obs-shape", << key, "chart", h >>, e.obs.chart[h] = "")
      ELSE LET k == LunarKeyP(of'[h])
           IN Chk(IF k[3] # 0 THEN "EXT.session.chart-on-fixed-day" ELSE ON(of'[h], "chart-depends-on-own-object-only"),
                  << key, h, k, e.obs.chart[h] >>, e.obs.chart[h] = ref.chart[k[1]][k[2]][k[3] + 1]))
  + SumN(NDate, LAMBDA d :
      Chk(DN(d, "holiday-day-depends-on-table-state-only"), << key, d, holv'[d], names', e.obs.hol[d] >>,
          e.obs.hol[d] = ref.hol[d][holv'[d] + 1][names' + 1]))

SessStep ==
  /\ IsEv("SessStep")
  /\ LET e == Trace[l]
         a == e.a
     IN /\ CASE a[1] = "Create"  -> Create(a[2], a[3])
             [] a[1] = "Handle"  -> Handle(a[2], a[3])
             [] a[1] = "SetSect" -> SetSect(a[2], a[3])
             [] a[1] = "Fix"     -> Fix(a[2])
             [] a[1] = "Rename"  -> Rename(a[2])
             [] a[1] = "Bad"     -> Bad
             [] a[1] = "Write"   -> Write(a[2])
             [] OTHER -> FALSE
        /\ dirty' = IF a[1] = "SetSect" THEN dirty \cup {of[a[2]]} ELSE dirty
        /\ nfix' = IF a[1] = "Fix" THEN [nfix EXCEPT ![FixDate(a[2])] = @ + 1] ELSE nfix
        /\ Consume(ObsChecks(e))
  /\ UNCHANGED ref

TraceInit == KitInit /\ SInit /\ ref = << >> /\ dirty = {} /\ nfix = [d \in Dates |-> 0]
TraceNext == SessRef \/ SessStart \/ SessStep
TraceSpec == TraceInit /\ [][TraceNext]_tvars
=============================================================================
