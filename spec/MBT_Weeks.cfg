SPECIFICATION Spec
CONSTANTS MaxDepth = 0
VIEW view
INVARIANTS EmitPos
CHECK_DEADLOCK FALSE
