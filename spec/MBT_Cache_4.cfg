SPECIFICATION Spec
CONSTANTS
 Procs <- Procs4
 Years = {2020}
 BadYears <- NoBad
 CallsPerProc = 2
 LazyEightChar = FALSE
VIEW viewOrder
INVARIANTS EmitOrder
CHECK_DEADLOCK FALSE
