-------------------------------- MODULE BaZi --------------------------------
(***************************************************************************)
(* Eight-character reverse lookup: two-hour slots under the two            *)
(* day-boundary conventions, and what a result list must satisfy.          *)
(***************************************************************************)
EXTENDS Integers, Sequences, GanZhi

\* slot of an instant: << civil day the slot is counted with, slot number >>
\*  sect 1 (early rat): 23:00-23:59 belongs to the next day, so the rat slot runs 23:00-00:59 across midnight
\*  sect 2 (late rat):  the day changes at midnight: 00:00-00:59 is slot 0, 23:00-23:59 is slot 12 of the same day
SlotOf(s, t) == IF s = 1
                  THEN IF t.sod >= 82800 THEN << t.jdn + 1, 0 >> ELSE << t.jdn, HourBranch(t.sod) >>
                  ELSE IF t.sod >= 82800 THEN << t.jdn, 12 >> ELSE << t.jdn, HourBranch(t.sod) >>
SameSlot(s, a, b) == SlotOf(s, a) = SlotOf(s, b)
\* the instant the lookup tries for a slot: the even hour in the middle of the slot (00:00 for the rat slot, 23:00 for slot 12)
Representative(s, t) == LET sl == SlotOf(s, t)
                        IN IF sl[2] = 12 THEN [jdn |-> sl[1], sod |-> 82800]
                           ELSE [jdn |-> sl[1], sod |-> sl[2] * 7200]
=============================================================================
