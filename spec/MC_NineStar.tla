----------------------------- MODULE MC_NineStar -----------------------------
(***************************************************************************)
(* Three independent wheels (variable mode):                               *)
(*  "year": a year cursor 1..9999; the anchor formula of NineStar.tla      *)
(*          equals the 180-year three-cycle formula transcribed from the   *)
(*          code, and steps back one star per year;                        *)
(*  "day":  a day cursor between winter / summer anchors 180 or 240 days   *)
(*          apart; star one at the winter anchor counting up, star nine at *)
(*          the summer anchor counting down;                               *)
(*  "hour": branch group x half x slot.                                    *)
(***************************************************************************)
EXTENDS NineStar, TLC
VARIABLES mode, a, b, c
vars == << mode, a, b, c >>
Init == \/ (mode = "year" /\ a = 1 /\ b = 0 /\ c = 0)
        \/ (mode = "day" /\ a \in {120, 180, 240} /\ b \in {120, 180, 240} /\ c = -240)       \* gaps winter->summer->winter, c = day offset
        \/ (mode = "hour" /\ a \in 0..11 /\ b \in 0..1 /\ c = 0)
Next == \/ (mode = "year" /\ a < 9999 /\ a' = a + 1 /\ UNCHANGED << mode, b, c >>)
        \/ (mode = "day" /\ c < a + b + 60 /\ c' = c + 1 /\ UNCHANGED << mode, a, b >>)
        \/ (mode = "hour" /\ c < 11 /\ c' = c + 1 /\ UNCHANGED << mode, a, b >>)
Spec == Init /\ [][Next]_vars
\* the code's formula (LunarYear.GetNineStar), transcribed
CodeYearStar(y) == LET index == ((y - 4) % 60) + 1
                       yuan == ((y + 2696) \div 60) % 3
                       off == (62 + yuan * 3 - index) % 9
                   IN (IF off = 0 THEN 9 ELSE off) - 1
YearLaws == mode = "year" => /\ YearStar(a) = CodeYearStar(a) /\ YearStar(a) \in 0..8
                             /\ YearStar(a + 1) = (YearStar(a) - 1) % 9
                             /\ YearStar(2024) = 2 /\ YearStar(2023) = 3 /\ YearStar(1984) = 6
\* anchors: previous summer at -240 (or wherever), winter w0 = 0, summer s = a, winter w1 = a + b
W0 == 2451550
DS(d) == DayStar(W0 + d, W0 - 240, W0, W0 + a, W0 + a + b)
DayLaws == mode = "day" => /\ DS(c) \in 0..8
                           /\ (c = 0 => DS(c) = 0) /\ (c = a => DS(c) = 8) /\ (c = a + b => DS(c) = 0) /\ (c = -240 => DS(c) = 8)
DaySteps == [][ mode = "day" =>
                  /\ ((c >= 0 /\ c + 1 < a) \/ c >= a + b) => DS(c + 1) = (DS(c) + 1) % 9
                  /\ ((c >= a /\ c + 1 < a + b) \/ c + 1 < 0) => DS(c + 1) = (DS(c) - 1) % 9 ]_vars
HourLaws == mode = "hour" => LET asc == b = 1 IN
              /\ HourStar(a, asc, c) \in 0..8
              /\ HourStar(a, asc, 0) = HourStart(a, asc)
              /\ HourStart(a, asc) \in (IF asc THEN {0, 3, 6} ELSE {8, 5, 2})
              /\ (a \in {0, 3, 6, 9} => HourStart(a, asc) = (IF asc THEN 0 ELSE 8))          \* 子卯午酉
              /\ (a \in {1, 4, 7, 10} => HourStart(a, asc) = (IF asc THEN 3 ELSE 5))         \* 丑辰未戌
              /\ (c < 11 => HourStar(a, asc, c + 1) = (HourStar(a, asc, c) + (IF asc THEN 1 ELSE -1)) % 9)
=============================================================================
