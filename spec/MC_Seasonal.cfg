SPECIFICATION Spec
INVARIANTS FuLaws ShuJiuLaws PentadLaws SheLaws
PROPERTIES FuSteps ShuJiuSteps PentadSteps
CHECK_DEADLOCK FALSE
