------------------------------ MODULE Seasonal ------------------------------
(***************************************************************************)
(* Seasonal counters and movable festivals, from the term table T (31      *)
(* instants) of a civil year and the day pillar.  Only whole days matter.  *)
(***************************************************************************)
EXTENDS Integers, Sequences, GanZhi

\* table positions
PosDongZhiPrev == 2
PosLiChun == 5
PosQingMing == 9
PosXiaZhi == 14
PosLiQiu == 17
PosDongZhi == 26
StemOfDay(j) == DayIdx(j) % 10
\* first day on or after j whose stem is g
FirstStemDayFrom(j, g) == j + ((g - StemOfDay(j)) % 10)

(* nine-nines: 81 days from the winter-solstice day, nine groups of nine *)
ShuJiuStart(T, j) == IF j >= T[PosDongZhi].jdn THEN T[PosDongZhi].jdn ELSE T[PosDongZhiPrev].jdn
InShuJiu(T, j) == LET k == j - ShuJiuStart(T, j) IN k >= 0 /\ k < 81
ShuJiuGroup(T, j) == ((j - ShuJiuStart(T, j)) \div 9) + 1          \* 1..9
ShuJiuDay(T, j) == ((j - ShuJiuStart(T, j)) % 9) + 1              \* 1..9

(* dog days: geng = stem 6 *)
FuStart(T) == FirstStemDayFrom(T[PosXiaZhi].jdn, 6) + 20            \* third geng day on/after the summer solstice
FuLastStart(T) == FirstStemDayFrom(T[PosLiQiu].jdn, 6)             \* first geng day on/after Liqiu
\* << period (1 = first, 2 = middle, 3 = last, 0 = none), day index >>
FuOf(T, j) ==
  LET a == FuStart(T)
      c == FuLastStart(T)
  IN IF j < a THEN << 0, 0 >>
     ELSE IF j < a + 10 THEN << 1, j - a + 1 >>
     ELSE IF j < c THEN << 2, j - (a + 10) + 1 >>
     ELSE IF j < c + 10 THEN << 3, j - c + 1 >>
     ELSE << 0, 0 >>
FuMiddleLength(T) == FuLastStart(T) - (FuStart(T) + 10)

(* pentads: the term in force on day j (latest term day <= j), three pentads, the third absorbs the rest *)
TermInForce(T, j) == PrevPos(T, [jdn |-> j, sod |-> 0], "all", TRUE)
PentadOf(T, j) == LET p == TermInForce(T, j)
                      k == (j - T[p].jdn) \div 5
                  IN IF k > 2 THEN 2 ELSE k
\* index into the 72 phenological names, which start at the first pentad of the winter solstice
WuHouIndex(T, j) == LET p == TermInForce(T, j) IN (3 * ((p - 2) % 24) + PentadOf(T, j)) % 72

(* movable festivals *)
HanShiDay(T) == T[PosQingMing].jdn - 1
\* the fifth wu (stem 4) day counted from the term day (the first one may be the term day itself)
SheDay(T, pos) == FirstStemDayFrom(T[pos].jdn, 4) + 40
=============================================================================
