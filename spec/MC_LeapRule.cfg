SPECIFICATION Spec
INVARIANTS RuleLaws
CHECK_DEADLOCK FALSE
