---------------------------- MODULE MC_Religious ----------------------------
(***************************************************************************)
(* A cursor over (lunar month, day, day pillar): the closed definitional   *)
(* sets of Religious.tla are well-formed and mutually consistent.          *)
(***************************************************************************)
EXTENDS Religious, FiniteSets, TLC
VARIABLES m, d, gz
vars == << m, d, gz >>
Init == m \in 1..12 /\ d \in 1..30 /\ gz \in 0..59
Next == FALSE /\ UNCHANGED vars
Spec == Init /\ [][Next]_vars
SetsOK == /\ Cardinality(SanHui) = 3 /\ Cardinality(SanYuan) = 3 /\ Cardinality(WuLa) = 5 /\ Cardinality(BaJieTerms) = 8
          /\ Cardinality(BaHuiPairs) = 8 /\ Cardinality(YangGongDays) = 13
          /\ \A p \in SanHui \cup SanYuan \cup WuLa \cup YangGongDays : p[1] \in 1..12 /\ p[2] \in 1..30
          /\ \A p \in BaHuiPairs : p[1] \in 0..9 /\ p[2] \in 0..11 /\ p[1] % 2 = p[2] % 2
          /\ BaJieTerms \subseteq { JieQi24[i] : i \in 1..24 }
          /\ { AnWuBranch[i] : i \in 1..12 } = 0..11
          /\ ZhaiSixDays \subseteq ZhaiTenDays
          /\ Cardinality({ Xiu27[i] : i \in 1..27 }) = 27 /\ { Xiu27[i] : i \in 1..27 } = { Xiu28[i] : i \in 1..28 } \ { "牛" }
\* the thirteen Yang Gong days fall 28 days apart counting 30-day months (the classical construction)
YangGongSpacing == \A p \in YangGongDays, q \in YangGongDays :
                     (30 * q[1] + q[2]) - (30 * p[1] + p[2]) \in 1..40 =>
                       (30 * q[1] + q[2]) - (30 * p[1] + p[2]) = 28
PointLaws == /\ (<< m, d >> \in SanYuan => d = 15)
             /\ (AnWuBranch[m] \in 0..11)
             /\ ((gz % 10 = 4) \/ (gz % 12 = AnWuBranch[m]) \/ TRUE)
=============================================================================
