----------------------------- MODULE Trace_BaZi -----------------------------
(***************************************************************************)
(* Trace specification for C10 (reverse lookup) and C12 (fortune periods). *)
(***************************************************************************)
EXTENDS Civil, BaZi, Fortune, Vocab, TraceKit
VARIABLES now
tvars == << l, rej, now >>
InstOf6(x) == [jdn |-> JDN(x[1], x[2], x[3]), sod |-> Sod(x[4], x[5], x[6])]

C10Env == IsEv("C10Env") /\ Consume(0) /\ now' = Trace[l].now

C10Checks(e) ==
  SumSeq(e.rows, LAMBDA x :
    IF x.p # 0 THEN Chk("C10.lookup.panic", << x.q, x.s, x.b >>, FALSE)
    ELSE
      LET q == InstOf6(x.q)
          R == x.r
          key == << x.q, x.s, x.b, x.via >>
          nj == InstOf6(x.nj)
          found == \E i \in 1..Len(R) : SameSlot(x.s, InstOf6(R[i].at), q)
          \* the query precedes a Jie that lies in the same slot and before the instant the lookup tries for that slot
          jieFirstHalf == SameSlot(x.s, nj, q) /\ TBefore(q, nj) /\ TLeq(nj, Representative(x.s, q))
      IN SumN(Len(R), LAMBDA i :
           Chk("C10.sound.pillars", << key, R[i].at, R[i].pz >>, R[i].pz = x.pz)
           + Chk("C10.sound.base-year", << key, R[i].at >>, R[i].at[1] >= x.b)
           + Chk("C10.sound.valid", << key, R[i].at >>, ValidDateTime(R[i].at[1], R[i].at[2], R[i].at[3], R[i].at[4], R[i].at[5], R[i].at[6])))
         + SumN(Len(R) - 1, LAMBDA i :
             Chk("C10.sorted", << key, R[i].at, R[i + 1].at >>, TBefore(InstOf6(R[i].at), InstOf6(R[i + 1].at))))
         \* a query taken from before the base year is outside the domain: soundness only
         + (IF x.q[1] > now \/ x.q[1] < x.b THEN 0
            ELSE IF jieFirstHalf
              THEN Chk("C10.complete.jie-before-slot-representative", << "query-before-jie", key >>, found)
              ELSE Chk("C10.complete", << key, Len(R) >>, found)))
C10Year == IsEv("C10Year") /\ Consume(C10Checks(Trace[l])) /\ UNCHANGED now

(***************************************************************************)
(* C12Birth: the four charts (2 genders x 2 start-offset schools) of one   *)
(* birth moment.                                                           *)
(***************************************************************************)
ChartChecks(e, ch) ==
  LET birth == InstOf6(e.at)
      by == e.at[1]
      key == << e.at, ch.g, ch.s >>
      fwd == Forward(e.ygx, ch.g)
      a == IF fwd THEN birth ELSE InstOf6(e.pj)
      b == IF fwd THEN InstOf6(e.nj) ELSE birth
      \* 23:xx is left open for school 1: the statement does not say which slot that hour counts as
      \* (when BOTH lie in 23:xx they are in the same slot of their days under either reading, so the offset is determined)
      open1 == ch.s = 1 /\ ((a.sod >= 82800) # (b.sod >= 82800))
      off == IF ch.s = 2 THEN OffsetSchool2(MinutesBetween(a, b)) ELSE OffsetSchool1(a, b)
      start == StartInstant(birth, << ch.st[1], ch.st[2], ch.st[3], ch.st[4] >>)
      sy == ch.ss[1]
      D == ch.dy
  IN IF ch.p # 0 THEN Chk("C12.chart.panic", key, FALSE)
     ELSE
       Chk("C12.direction", << key, e.ygx, ch.fwd >>, (ch.fwd = 1) = fwd /\ ch.gg = ch.g)
       + Chk("C12.start.range", << key, ch.st >>, OffsetInRange(ch.st))
       + (IF open1 THEN 0 ELSE Chk("C12.start.offset", << key, ch.st, off >>, ch.st = off))
       + Chk("C12.start.solar", << key, ch.st, ch.ss >>,
             ValidDateTime(ch.ss[1], ch.ss[2], ch.ss[3], ch.ss[4], ch.ss[5], ch.ss[6]) /\ InstOf6(ch.ss) = start)
       \* the offset is a function of birth, gender and school: the chart's day-boundary convention is not among them
       + (IF Has(ch, "st2") THEN Chk("C12.start.independent-of-chart-convention", << key, ch.st, ch.st2 >>, ch.st = ch.st2) ELSE 0)
       + Chk("C12.daYun.count", << key, Len(D) >>, Len(D) = (IF Has(ch, "dyn") THEN ch.dyn ELSE 10))
       + SumN(Len(D), LAMBDA n :
           LET i == n - 1
               v == D[n].v
               span == DaYunSpan(i, by, sy)
           IN Chk("C12.daYun.span", << key, i, v >>, << v[1], v[2], v[3], v[4] >> = span /\ v[5] = i)
              + Chk("C12.daYun.contiguous", << key, i >>, n = 1 \/ (v[1] = D[n - 1].v[2] + 1 /\ v[3] = D[n - 1].v[4] + 1))
              + Chk("C12.daYun.pillar", << key, i, v[6] >>, IF i = 0 THEN v[6] = -1 ELSE v[6] = DaYunPillar(i, e.mgz, fwd))
              + Chk("C12.liuNian.count", << key, i, Len(D[n].ln) >>, Len(D[n].ln) = (IF i = 0 THEN v[2] - v[1] + 1 ELSE 10) /\ Len(D[n].xy) = Len(D[n].ln))
              + SumN(Len(D[n].ln), LAMBDA j :
                  LET x == D[n].ln[j]
                  IN Chk("C12.liuNian", << key, i, x >>, x[1] = j - 1 /\ x[2] = v[1] + j - 1 /\ x[3] = v[3] + j - 1 /\ x[3] = x[2] - by + 1
                                                         /\ x[4] = YearIdx(x[2])))
              + SumN(Len(D[n].xy), LAMBDA j :
                  LET x == D[n].xy[j]
                  IN Chk("C12.xiaoYun", << key, i, x >>, x[1] = j - 1 /\ x[2] = v[1] + j - 1 /\ x[3] = v[3] + j - 1
                                                         /\ x[4] = XiaoYunPillar(e.hgz, x[3], fwd)))
              + (IF Has(D[n], "ly")
                   THEN SumN(Len(D[n].ly), LAMBDA k :
                          LET x == D[n].ly[k]
                          IN Chk("C12.liuYue", << key, i, x >>, Len(D[n].ly) = 12 /\ x[1] = k - 1 /\ x[2] = MonthName[k]
                                                              /\ x[3] = LiuYuePillar(D[n].lyof, k - 1)))
                   ELSE 0))
C12Birth ==
  /\ IsEv("C12Birth")
  /\ LET e == Trace[l]
     IN Consume(IF e.p # 0 THEN Chk("C12.birth.panic", e.at, FALSE)
                ELSE SumSeq(e.ch, LAMBDA ch : ChartChecks(e, ch)))
  /\ UNCHANGED now

TraceInit == KitInit /\ now = 0
TraceNext == C10Env \/ C10Year \/ C12Birth
TraceSpec == TraceInit /\ [][TraceNext]_tvars
=============================================================================
