------------------------------ MODULE BaZiRules ------------------------------
(***************************************************************************)
(* The classical rules behind the derived attributes of an eight-character *)
(* chart, written from the five-element relations and NOT from the         *)
(* library's tables: elements of stems and branches, ten gods (the relation *)
(* of a stem to the day master), hidden stems of the branches, the twelve  *)
(* life stages, the six xun and their empty branches, the thirty nayin,    *)
(* the conception pillars.                                                 *)
(*                                                                         *)
(* Indices: stems 0..9 (jia..gui), branches 0..11 (zi..hai), elements      *)
(* 0..4 = wood, fire, earth, metal, water.  Wood feeds fire feeds earth    *)
(* feeds metal feeds water feeds wood; wood checks earth checks water      *)
(* checks fire checks metal checks wood.                                   *)
(*                                                                         *)
(* C11 only states that these attributes are computed from their pillars;  *)
(* what they ARE is an extension (EXT.bazi.*, reported, never a verdict).  *)
(***************************************************************************)
EXTENDS Integers, Sequences, Vocab

ElemName == << "木", "火", "土", "金", "水" >>
StemElem(g) == g \div 2
Yang(g) == g % 2 = 0
BranchElem == << 4, 2, 0, 0, 2, 1, 1, 2, 3, 3, 2, 4 >>                    \* zi water, chou earth, yin wood, ...
Feeds(a, b) == b = (a + 1) % 5
Checks(a, b) == b = (a + 2) % 5

\* element of the stem followed by element of the branch, as the chart prints it
PillarElems(g, z) == ElemName[StemElem(g) + 1] \o ElemName[BranchElem[z + 1] + 1]

\* the relation of stem o to the day master d
TenGod(d, o) ==
  LET ed == StemElem(d) eo == StemElem(o) same == (Yang(d) = Yang(o)) IN
  CASE eo = ed          -> IF same THEN "比肩" ELSE "劫财"
    [] Feeds(ed, eo)    -> IF same THEN "食神" ELSE "伤官"       \* what the day master produces
    [] Checks(ed, eo)   -> IF same THEN "偏财" ELSE "正财"       \* what it controls
    [] Checks(eo, ed)   -> IF same THEN "七杀" ELSE "正官"       \* what controls it
    [] Feeds(eo, ed)    -> IF same THEN "偏印" ELSE "正印"       \* what produces it
TenGodNames == { "比肩", "劫财", "食神", "伤官", "偏财", "正财", "七杀", "正官", "偏印", "正印" }

\* hidden stems of the twelve branches (main stem first)
HideGan == << << 9 >>, << 5, 9, 7 >>, << 0, 2, 4 >>, << 1 >>, << 4, 1, 9 >>, << 2, 6, 4 >>,
              << 3, 5 >>, << 5, 3, 1 >>, << 6, 8, 4 >>, << 7 >>, << 4, 7, 3 >>, << 8, 0 >> >>
HideGanNames(z) == [i \in 1..Len(HideGan[z + 1]) |-> Gan[HideGan[z + 1][i] + 1]]
TenGodsOfBranch(d, z) == [i \in 1..Len(HideGan[z + 1]) |-> TenGod(d, HideGan[z + 1][i])]

\* twelve life stages: a yang stem runs forward from the branch where it is born, a yin stem backward
StageName == << "长生", "沐浴", "冠带", "临官", "帝旺", "衰", "病", "死", "墓", "绝", "胎", "养" >>
BirthBranch == << 11, 6, 2, 9, 2, 9, 5, 0, 8, 3 >>                     \* jia-hai yi-wu bing-yin ding-you wu-yin ji-you geng-si xin-zi ren-shen gui-mao
LifeStage(d, z) == StageName[(IF Yang(d) THEN (z - BirthBranch[d + 1]) % 12 ELSE (BirthBranch[d + 1] - z) % 12) + 1]

\* the sixty pairs in six decades: head of the decade and the two branches it leaves out
XunName == << "甲子", "甲戌", "甲申", "甲午", "甲辰", "甲寅" >>
XunKongName == << "戌亥", "申酉", "午未", "辰巳", "寅卯", "子丑" >>
XunOf(k) == XunName[(k \div 10) + 1]
XunKongOf(k) == XunKongName[(k \div 10) + 1]
\* derived, not tabulated: the decade of pair k starts at k - k%10; its branches are start%12 .. start%12+9; the two missing follow
XunKongDerived(k) == LET s == (k - (k % 10)) % 12 IN Zhi[((s + 10) % 12) + 1] \o Zhi[((s + 11) % 12) + 1]

NaYin30 == << "海中金", "炉中火", "大林木", "路旁土", "剑锋金", "山头火", "涧下水", "城头土", "白蜡金", "杨柳木",
              "泉中水", "屋上土", "霹雳火", "松柏木", "长流水", "沙中金", "山下火", "平地木", "壁上土", "金箔金",
              "覆灯火", "天河水", "大驿土", "钗钏金", "桑柘木", "大溪水", "沙中土", "天上火", "石榴木", "大海水" >>
NaYinOf(k) == NaYin30[(k \div 2) + 1]

\* conception month: stem + 1, branch + 3 from the month pillar; conception breath: the partners of the day pillar
\* (stem + 5; branches pair zi-chou, yin-hai, mao-xu, chen-you, si-shen, wu-wei)
TaiYuan(g, z) == Gan[((g + 1) % 10) + 1] \o Zhi[((z + 3) % 12) + 1]
TaiXi(g, z) == Gan[((g + 5) % 10) + 1] \o Zhi[((13 - z) % 12) + 1]
=============================================================================
