------------------------------ MODULE MC_Forms ------------------------------
(***************************************************************************)
(* Printed forms: a cursor over a grid of civil date-times and lunar       *)
(* dates; the action moves to any other grid point.  Checked in every      *)
(* state: parse(format(x)) = x.  Checked on every transition: the          *)
(* lexicographic order of the two timestamps is their chronological order, *)
(* and distinct lunar dates print differently.                             *)
(***************************************************************************)
EXTENDS Civil, Forms, TLC
CONSTANTS Years, Months, Days, Times, LYears
VARIABLES c, lu, mode
vars == << c, lu, mode >>
Grid == { << y, m, d, t[1], t[2], t[3] >> : y \in Years, m \in Months, d \in Days, t \in Times }
LGrid == { << y, m, d >> : y \in LYears, m \in (-12..12) \ {0}, d \in {1, 10, 20, 30} }
\* two independent cursors: a behaviour moves one of them only
Init == \/ mode = "civil" /\ c \in Grid /\ lu = << 2020, 1, 1 >>
        \/ mode = "lunar" /\ lu \in LGrid /\ c = << 2020, 1, 1, 0, 0, 0 >>
Next == \/ mode = "civil" /\ c' \in Grid /\ UNCHANGED << lu, mode >>
        \/ mode = "lunar" /\ lu' \in LGrid /\ UNCHANGED << c, mode >>
Spec == Init /\ [][Next]_vars
S(x) == FmtYmdHms(x[1], x[2], x[3], x[4], x[5], x[6])
D(x) == FmtYmd(x[1], x[2], x[3])
I(x) == InstOf(x[1], x[2], x[3], x[4], x[5], x[6])
ParseBack == /\ WellFormedYmdHms(S(c)) /\ ParseYmdHms(S(c)) = c
             /\ WellFormedYmd(D(c)) /\ ParseYmd(D(c)) = << c[1], c[2], c[3] >>
             /\ Len(S(c)) = 19 /\ Len(D(c)) = 10
LunarParseBack == LET r == RenderLunar(lu[1], lu[2], lu[3]) IN WellFormedLunar(r) /\ ParseLunar(r) = lu
OrderLaw == [][ /\ LexCmp(S(c), S(c')) = Cmp(I(c), I(c'))
                /\ LexCmp(D(c), D(c')) = Sign(JDN(c'[1], c'[2], c'[3]) - JDN(c[1], c[2], c[3])) * (-1)
                /\ (lu # lu' => RenderLunar(lu[1], lu[2], lu[3]) # RenderLunar(lu'[1], lu'[2], lu'[3])) ]_vars
YearsQ == {1, 9, 10, 99, 100, 999, 1000, 1582, 9999}
YearsT == {1, 2, 9, 10, 11, 99, 100, 101, 999, 1000, 1582, 1583, 2020, 9998, 9999}
MonthsQ == {1, 2, 9, 10, 12}
DaysQ == {1, 9, 10, 28}
TimesQ == { << 0, 0, 0 >>, << 9, 59, 59 >>, << 23, 59, 59 >> }
TimesT == { << 0, 0, 0 >>, << 0, 0, 9 >>, << 9, 59, 59 >>, << 10, 0, 0 >>, << 23, 59, 59 >> }
LYearsV == {0, 1, 9, 10, 23, 100, 101, 999, 1000, 2020, 9999, 10000, 12695}
=============================================================================
