SPECIFICATION TraceSpec
CONSTANTS
  NObj = 2
  NHandle = 2
  NInst = 3
  NDate = 2
  NFix = 4
  InstDate <- TrInstDate
POSTCONDITION Done
CHECK_DEADLOCK FALSE
